package symx

import (
	"fmt"
	"go/constant"
	"go/token"
	"go/types"

	"golang.org/x/tools/go/ssa"
)

// ---- evaluation of SSA operands

func (st *State) eval(fr *Frame, v ssa.Value) Value {
	switch x := v.(type) {
	case *ssa.Const:
		return st.constValue(x)
	case *ssa.Global:
		return st.ptrTo(st.globalObj(x), 0)
	case *ssa.Function:
		return &Closure{Fn: x}
	case *ssa.Builtin:
		return x
	case *ssa.FreeVar:
		for i, fv := range fr.fn.FreeVars {
			if fv == x {
				return fr.env[i]
			}
		}
		panic("freevar not found")
	}
	if i, ok := fr.info.idx[v]; ok {
		return fr.locals[i]
	}
	panic(fmt.Sprintf("eval: no value for %s (%T) in %s", v.Name(), v, fr.fn))
}

func (st *State) constValue(x *ssa.Const) Value {
	T := x.Type()
	if x.Value == nil {
		return st.zero(T)
	}
	switch u := T.Underlying().(type) {
	case *types.Basic:
		switch {
		case u.Info()&types.IsBoolean != 0:
			return st.c.Bool(constant.BoolVal(x.Value))
		case u.Info()&types.IsString != 0:
			return st.constString(constant.StringVal(x.Value))
		case u.Info()&types.IsFloat != 0:
			f, _ := constant.Float64Val(x.Value)
			return FloatV(f)
		case u.Info()&types.IsInteger != 0 || u.Kind() == types.UnsafePointer:
			w := 8 * sizeof(T)
			if u.Kind() == types.UntypedInt || u.Kind() == types.UntypedRune {
				w = 64
			}
			if i, ok := constant.Int64Val(constant.ToInt(x.Value)); ok {
				return st.c.Const(w, uint64(i))
			}
			if i, ok := constant.Uint64Val(constant.ToInt(x.Value)); ok {
				return st.c.Const(w, i)
			}
		}
	}
	st.abort(abUnsupported, "constant of type "+T.String())
	return nil
}

func (st *State) globalObj(g *ssa.Global) *Obj {
	if o, ok := st.globals[g]; ok {
		return o
	}
	T := g.Type().(*types.Pointer).Elem()
	o := st.newObj(sizeof(T), "global", g.String())
	o.owner = -1
	o.shared = true
	st.globals[g] = o
	st.initForeignGlobal(g, o, T)
	return o
}

// initForeignGlobal gives well-known globals of non-target packages (whose init is not run) a value.
func (st *State) initForeignGlobal(g *ssa.Global, o *Obj, T types.Type) {
	if g.Pkg == nil || st.isTarget(g.Pkg) {
		return
	}
	if types.IsInterface(T) && T.String() == "error" {
		st.storeAt(o.base(), T, st.opaqueError(g.String()))
	}
}

func (st *State) isTarget(p *ssa.Package) bool {
	for _, t := range st.p.Targets {
		if t == p {
			return true
		}
	}
	return false
}

// ---- frames and calls

func (st *State) pushFrame(th *Thread, fn *ssa.Function, args []Value, env []Value, callIns ssa.Instruction) *Frame {
	if len(fn.Blocks) == 0 {
		st.abort(abUnsupported, "call of function without body: "+fn.String())
	}
	info := st.p.fnInfoFor(fn)
	fr := &Frame{fn: fn, info: info, locals: make([]Value, info.n), env: env, block: fn.Blocks[0], caller: th.fr, callIns: callIns}
	for i := range fn.Params {
		fr.locals[i] = args[i]
	}
	th.fr = fr
	st.fnCount[fn]++
	return fr
}

// callValue invokes fv (Closure / BoundMethod) with args; result delivered to callIns in the calling frame.
func (st *State) callValue(th *Thread, fv Value, args []Value, callIns ssa.Instruction) {
	switch f := fv.(type) {
	case *Closure:
		if f == nil {
			st.fail("call of nil function")
		}
		st.callFunc(th, f.Fn, args, f.Env, callIns)
	case *BoundMethod:
		st.callFunc(th, f.Fn, append([]Value{f.Recv}, args...), nil, callIns)
	default:
		st.abort(abUnsupported, fmt.Sprintf("call of %T", fv))
	}
}

// callFunc: intrinsic or real body. For intrinsics the result is delivered immediately.
func (st *State) callFunc(th *Thread, fn *ssa.Function, args []Value, env []Value, callIns ssa.Instruction) {
	name := st.p.fnName(fn)
	if in, ok := intrinsics[name]; ok {
		st.stubCnt[name]++
		res, done := in(st, th, args, callIns)
		if done {
			st.deliver(th, callIns, res)
		}
		return
	}
	if fn.Synthetic != "" && len(fn.Blocks) == 0 {
		st.abort(abUnsupported, "synthetic function without body: "+name)
	}
	if len(fn.Blocks) == 0 {
		st.abort(abUnsupported, "no body and no stub for "+name)
	}
	if fn.Name() == "init" && fn.Pkg != nil && !st.isTarget(fn.Pkg) {
		st.deliver(th, callIns, nil)
		return
	}
	st.pushFrame(th, fn, args, env, callIns)
}

// deliver stores a call result into the frame waiting for it and advances it.
func (st *State) deliver(th *Thread, callIns ssa.Instruction, res Value) {
	fr := th.fr
	if fr == nil {
		return
	}
	if callIns != nil {
		if v, ok := callIns.(ssa.Value); ok {
			fr.set(v, res)
		}
	}
	if !fr.inDefers() {
		fr.ip++
	}
}

func (fr *Frame) set(v ssa.Value, val Value) {
	fr.locals[fr.info.idx[v]] = val
}

type fnInfo struct {
	idx map[ssa.Value]int
	n   int
}

func (p *Program) fnInfoFor(fn *ssa.Function) *fnInfo {
	if v, ok := p.fnInfos.Load(fn); ok {
		return v.(*fnInfo)
	}
	fi := &fnInfo{idx: map[ssa.Value]int{}}
	for _, pa := range fn.Params {
		fi.idx[pa] = fi.n
		fi.n++
	}
	for _, b := range fn.Blocks {
		for _, ins := range b.Instrs {
			if v, ok := ins.(ssa.Value); ok {
				fi.idx[v] = fi.n
				fi.n++
			}
		}
	}
	v, _ := p.fnInfos.LoadOrStore(fn, fi)
	return v.(*fnInfo)
}

func (fr *Frame) inDefers() bool {
	if fr.block == nil || fr.ip >= len(fr.block.Instrs) {
		return false
	}
	_, ok := fr.block.Instrs[fr.ip].(*ssa.RunDefers)
	return ok
}

func (p *Program) fnName(fn *ssa.Function) string {
	p.fnMu.Lock()
	defer p.fnMu.Unlock()
	if n, ok := p.fnNames[fn]; ok {
		return n
	}
	n := fn.String()
	if o := fn.Origin(); o != nil {
		n = o.String()
	}
	p.fnNames[fn] = n
	return n
}

func (st *State) returnFrom(th *Thread, res Value) {
	fr := th.fr
	th.fr = fr.caller
	if th.fr == nil {
		th.status = thDone
		return
	}
	st.deliver(th, fr.callIns, res)
}

// ---- the instruction step

func (st *State) step(th *Thread) {
	fr := th.fr
	if fr.ip >= len(fr.block.Instrs) {
		panic("fell off block in " + fr.fn.String())
	}
	ins := fr.block.Instrs[fr.ip]
	th.started = true
	if !st.restart {
		st.nInstr++
	}
	if st.instrBase+st.nInstr > st.p.Cfg.MaxInstr {
		st.abort(abBound, fmt.Sprintf("instruction budget %d exceeded", st.p.Cfg.MaxInstr))
	}
	if p := ins.Pos(); p != token.NoPos {
		st.lastPos = p
	}
	if st.concurrent && !st.restart {
		switch ins.(type) {
		case *ssa.Call, *ssa.Store, *ssa.UnOp, *ssa.Send, *ssa.Select:
			if th.ihits == nil {
				th.ihits = map[ssa.Instruction]int{}
			}
			th.ihits[ins]++
		}
	}
	switch x := ins.(type) {
	case *ssa.Alloc:
		T := x.Type().(*types.Pointer).Elem()
		o := st.newObj(sizeof(T), "alloc", T.String())
		o.site = st.p.Fset.Position(x.Pos()).String()
		fr.set(x, st.ptrTo(o, 0))
	case *ssa.BinOp:
		fr.set(x, st.binop(x.Op, st.eval(fr, x.X), st.eval(fr, x.Y), x.X.Type(), x.Y.Type()))
	case *ssa.UnOp:
		if x.Op == token.ARROW {
			if !st.recv(th, fr, x) {
				return
			}
			break
		}
		fr.set(x, st.unop(fr, x))
	case *ssa.Call:
		st.doCall(th, fr, x)
		return
	case *ssa.ChangeInterface:
		fr.set(x, st.eval(fr, x.X))
	case *ssa.ChangeType:
		fr.set(x, st.eval(fr, x.X))
	case *ssa.Convert:
		fr.set(x, st.convert(st.eval(fr, x.X), x.X.Type(), x.Type()))
	case *ssa.DebugRef:
	case *ssa.Defer:
		st.doDefer(fr, x)
	case *ssa.Extract:
		fr.set(x, st.eval(fr, x.Tuple).(Agg)[x.Index])
	case *ssa.Field:
		fr.set(x, st.eval(fr, x.X).(Agg)[x.Field])
	case *ssa.FieldAddr:
		p := st.eval(fr, x.X).(*Term)
		ST := x.X.Type().Underlying().(*types.Pointer).Elem().Underlying().(*types.Struct)
		if p.IsConst() && p.C == 0 {
			st.fail("nil pointer dereference (field address)")
		}
		fr.set(x, st.c.Add(p, st.c.Const(64, uint64(st.offsets(ST)[x.Field]))))
	case *ssa.Go:
		st.doGo(th, fr, x)
	case *ssa.If:
		c := st.eval(fr, x.Cond).(*Term)
		if st.branch(c) {
			st.jump(fr, fr.block.Succs[0])
		} else {
			st.jump(fr, fr.block.Succs[1])
		}
		return
	case *ssa.Index:
		fr.set(x, st.indexValue(fr, x))
	case *ssa.IndexAddr:
		fr.set(x, st.indexAddr(fr, x))
	case *ssa.Jump:
		st.jump(fr, fr.block.Succs[0])
		return
	case *ssa.Lookup:
		fr.set(x, st.lookup(fr, x))
	case *ssa.MakeChan:
		sz := st.eval(fr, x.Size).(*Term)
		fr.set(x, st.newChan(int(st.concretize(sz, "chan size")), x.Type().Underlying().(*types.Chan).Elem()))
	case *ssa.MakeClosure:
		env := make([]Value, len(x.Bindings))
		for i, b := range x.Bindings {
			env[i] = st.eval(fr, b)
		}
		fr.set(x, &Closure{Fn: x.Fn.(*ssa.Function), Env: env})
	case *ssa.MakeInterface:
		fr.set(x, IfaceV{T: x.X.Type(), V: st.eval(fr, x.X)})
	case *ssa.MakeMap:
		mt := x.Type().Underlying().(*types.Map)
		fr.set(x, st.newMap(mt.Key(), mt.Elem()))
	case *ssa.MakeSlice:
		fr.set(x, st.makeSlice(fr, x))
	case *ssa.MapUpdate:
		st.mapUpdate(st.eval(fr, x.Map).(MapRef), st.eval(fr, x.Key), st.eval(fr, x.Value))
	case *ssa.Next:
		fr.set(x, st.rangeNext(fr, x))
	case *ssa.Panic:
		v := st.eval(fr, x.X)
		st.fail("panic: " + st.describe(v))
	case *ssa.Phi:
		// handled in jump
		panic("phi reached in step")
	case *ssa.Range:
		fr.set(x, st.rangeInit(fr, x))
	case *ssa.Return:
		var res Value
		switch len(x.Results) {
		case 0:
		case 1:
			res = st.eval(fr, x.Results[0])
		default:
			a := make(Agg, len(x.Results))
			for i, r := range x.Results {
				a[i] = st.eval(fr, r)
			}
			res = a
		}
		st.returnFrom(th, res)
		return
	case *ssa.RunDefers:
		if n := len(fr.defers); n > 0 {
			d := fr.defers[n-1]
			fr.defers = fr.defers[:n-1]
			if d.bi != nil {
				st.builtin(th, fr, d.bi, d.args, nil, nil)
				return // re-execute RunDefers
			}
			st.callValue(th, d.fn, d.args, nil)
			return
		}
	case *ssa.Select:
		if !st.doSelect(th, fr, x) {
			return
		}
	case *ssa.Send:
		if !st.send(th, fr, x) {
			return
		}
	case *ssa.Slice:
		fr.set(x, st.sliceOp(fr, x))
	case *ssa.SliceToArrayPointer:
		s := st.eval(fr, x.X).(SliceV)
		fr.set(x, s.Ptr)
	case *ssa.Store:
		addr := st.eval(fr, x.Addr).(*Term)
		T := x.Addr.Type().Underlying().(*types.Pointer).Elem()
		st.store(addr, T, st.eval(fr, x.Val))
	case *ssa.TypeAssert:
		fr.set(x, st.typeAssert(fr, x))
	default:
		st.abort(abUnsupported, fmt.Sprintf("instruction %T", ins))
	}
	fr.ip++
}

func (st *State) jump(fr *Frame, to *ssa.BasicBlock) {
	from := fr.block
	if to.Index <= from.Index {
		st.backEdges[to]++
		if st.backEdges[to] > st.p.Cfg.LoopBudget {
			st.abort(abBound, fmt.Sprintf("loop budget %d exceeded at %s (%s)", st.p.Cfg.LoopBudget, fr.fn.String(), st.p.Fset.Position(st.lastPos)))
		}
	}
	// evaluate phis in parallel
	var idx int
	for i, p := range to.Preds {
		if p == from {
			idx = i
			break
		}
	}
	n := 0
	var vals []Value
	for _, ins := range to.Instrs {
		phi, ok := ins.(*ssa.Phi)
		if !ok {
			break
		}
		vals = append(vals, st.eval(fr, phi.Edges[idx]))
		n++
	}
	for i := 0; i < n; i++ {
		fr.set(to.Instrs[i].(*ssa.Phi), vals[i])
	}
	fr.prev = from
	fr.block = to
	fr.ip = n
}

func (st *State) doCall(th *Thread, fr *Frame, x ssa.CallInstruction) {
	cc := x.Common()
	args := make([]Value, 0, len(cc.Args)+1)
	if cc.IsInvoke() {
		recv := st.eval(fr, cc.Value).(IfaceV)
		for _, a := range cc.Args {
			args = append(args, st.eval(fr, a))
		}
		st.invoke(th, recv, cc.Method, args, x)
		return
	}
	for _, a := range cc.Args {
		args = append(args, st.eval(fr, a))
	}
	switch f := cc.Value.(type) {
	case *ssa.Builtin:
		st.builtin(th, fr, f, args, cc.Args, x)
	case *ssa.Function:
		st.callFunc(th, f, args, nil, x)
	default:
		st.callValue(th, st.eval(fr, cc.Value), args, x)
	}
}

func (st *State) invoke(th *Thread, recv IfaceV, m *types.Func, args []Value, callIns ssa.Instruction) {
	if recv.T == nil {
		st.fail("method call on nil interface: " + m.Name())
	}
	if res, ok := st.specialInvoke(recv, m, args); ok {
		st.deliver(th, callIns, res)
		return
	}
	fn := st.p.Prog.LookupMethod(recv.T, m.Pkg(), m.Name())
	if fn == nil {
		st.abort(abUnsupported, fmt.Sprintf("no method %s on %s", m.Name(), recv.T))
	}
	st.callFunc(th, fn, append([]Value{recv.V}, args...), nil, callIns)
}

func (st *State) doDefer(fr *Frame, x *ssa.Defer) {
	cc := x.Common()
	var args []Value
	for _, a := range cc.Args {
		args = append(args, st.eval(fr, a))
	}
	if cc.IsInvoke() {
		recv := st.eval(fr, cc.Value).(IfaceV)
		if recv.T == nil {
			st.fail("defer of method on nil interface")
		}
		fn := st.p.Prog.LookupMethod(recv.T, cc.Method.Pkg(), cc.Method.Name())
		fr.defers = append(fr.defers, deferred{fn: &BoundMethod{Fn: fn, Recv: recv.V}, args: args})
		return
	}
	switch f := cc.Value.(type) {
	case *ssa.Builtin:
		fr.defers = append(fr.defers, deferred{bi: f, args: args})
	case *ssa.Function:
		fr.defers = append(fr.defers, deferred{fn: &Closure{Fn: f}, args: args})
	default:
		fr.defers = append(fr.defers, deferred{fn: st.eval(fr, cc.Value), args: args})
	}
}

func (st *State) doGo(th *Thread, fr *Frame, x *ssa.Go) {
	cc := x.Common()
	var args []Value
	for _, a := range cc.Args {
		args = append(args, st.eval(fr, a))
	}
	nt := &Thread{id: len(st.threads), hits: map[string]int{}}
	st.threads = append(st.threads, nt)
	var fn *ssa.Function
	var env []Value
	if cc.IsInvoke() {
		recv := st.eval(fr, cc.Value).(IfaceV)
		fn = st.p.Prog.LookupMethod(recv.T, cc.Method.Pkg(), cc.Method.Name())
		args = append([]Value{recv.V}, args...)
	} else {
		switch f := cc.Value.(type) {
		case *ssa.Function:
			fn = f
		default:
			switch c := st.eval(fr, cc.Value).(type) {
			case *Closure:
				fn, env = c.Fn, c.Env
			case *BoundMethod:
				fn = c.Fn
				args = append([]Value{c.Recv}, args...)
			}
		}
	}
	nt.name = fn.String()
	// objects reachable from the new goroutine's arguments become shared
	for _, a := range args {
		st.shareValue(a)
	}
	for _, a := range env {
		st.shareValue(a)
	}
	saved := th.fr
	_ = saved
	st.pushFrame(nt, fn, args, env, nil)
}

// ---- operators

func (st *State) unop(fr *Frame, x *ssa.UnOp) Value {
	v := st.eval(fr, x.X)
	switch x.Op {
	case token.MUL: // load
		T := x.X.Type().Underlying().(*types.Pointer).Elem()
		return st.load(v.(*Term), T)
	case token.NOT:
		return st.c.BNot(v.(*Term))
	case token.SUB:
		if f, ok := v.(FloatV); ok {
			return -f
		}
		return st.c.Neg(v.(*Term))
	case token.XOR:
		return st.c.Not(v.(*Term))
	}
	st.abort(abUnsupported, "unop "+x.Op.String())
	return nil
}

func (st *State) binop(op token.Token, a, b Value, TA, TB types.Type) Value {
	c := st.c
	switch x := a.(type) {
	case *Term:
		y, ok := b.(*Term)
		if !ok {
			st.abort(abUnsupported, fmt.Sprintf("binop %s on *Term and %T", op, b))
		}
		if x.W == 0 { // booleans
			switch op {
			case token.EQL:
				return c.Eq(x, y)
			case token.NEQ:
				return c.BNot(c.Eq(x, y))
			case token.AND:
				return c.BAnd(x, y)
			case token.OR:
				return c.BOr(x, y)
			}
			st.abort(abUnsupported, "bool binop "+op.String())
		}
		signed := isSigned(TA)
		switch op {
		case token.SHL, token.SHR:
			// shift count may have another width
			cnt := y
			w := x.W
			var big *Term = c.False
			if cnt.W > w {
				big = c.Ule(c.Const(cnt.W, uint64(w)), cnt)
				cnt = c.Extract(cnt, w-1, 0)
			} else if cnt.W < w {
				cnt = c.ZExt(cnt, w)
			}
			var r *Term
			if op == token.SHL {
				r = c.Bin(OpShl, x, cnt)
				return c.Ite(big, c.Const(w, 0), r)
			}
			if signed {
				r = c.Bin(OpAShr, x, cnt)
				return c.Ite(big, c.Bin(OpAShr, x, c.Const(w, uint64(w-1))), r)
			}
			r = c.Bin(OpLShr, x, cnt)
			return c.Ite(big, c.Const(w, 0), r)
		}
		if x.W != y.W {
			st.abort(abUnsupported, fmt.Sprintf("binop %s width mismatch %d %d", op, x.W, y.W))
		}
		switch op {
		case token.ADD:
			return c.Add(x, y)
		case token.SUB:
			return c.Sub(x, y)
		case token.MUL:
			return c.Bin(OpMul, x, y)
		case token.QUO, token.REM:
			if st.branch(c.Eq(y, c.Const(y.W, 0))) {
				st.fail("integer divide by zero")
			}
			if signed {
				if op == token.QUO {
					return c.Bin(OpSDiv, x, y)
				}
				return c.Bin(OpSRem, x, y)
			}
			if op == token.QUO {
				return c.Bin(OpUDiv, x, y)
			}
			return c.Bin(OpURem, x, y)
		case token.AND:
			return c.Bin(OpAnd, x, y)
		case token.OR:
			return c.Bin(OpOr, x, y)
		case token.XOR:
			return c.Bin(OpXor, x, y)
		case token.AND_NOT:
			return c.Bin(OpAnd, x, c.Not(y))
		case token.EQL:
			return c.Eq(x, y)
		case token.NEQ:
			return c.BNot(c.Eq(x, y))
		case token.LSS:
			if signed {
				return c.Slt(x, y)
			}
			return c.Ult(x, y)
		case token.LEQ:
			if signed {
				return c.Sle(x, y)
			}
			return c.Ule(x, y)
		case token.GTR:
			if signed {
				return c.Slt(y, x)
			}
			return c.Ult(y, x)
		case token.GEQ:
			if signed {
				return c.Sle(y, x)
			}
			return c.Ule(y, x)
		}
	case FloatV:
		y := b.(FloatV)
		switch op {
		case token.ADD:
			return x + y
		case token.SUB:
			return x - y
		case token.MUL:
			return x * y
		case token.QUO:
			return x / y
		case token.EQL:
			return c.Bool(x == y)
		case token.NEQ:
			return c.Bool(x != y)
		case token.LSS:
			return c.Bool(x < y)
		case token.LEQ:
			return c.Bool(x <= y)
		case token.GTR:
			return c.Bool(x > y)
		case token.GEQ:
			return c.Bool(x >= y)
		}
	case StrV:
		y := b.(StrV)
		switch op {
		case token.ADD:
			return st.strConcat(x, y)
		case token.EQL:
			return st.bytesEqual(x.Ptr, x.Len, y.Ptr, y.Len)
		case token.NEQ:
			return c.BNot(st.bytesEqual(x.Ptr, x.Len, y.Ptr, y.Len))
		case token.LSS:
			return c.Slt(st.bytesCompare(x.Ptr, x.Len, y.Ptr, y.Len), c.Const(64, 0))
		case token.GTR:
			return c.Slt(c.Const(64, 0), st.bytesCompare(x.Ptr, x.Len, y.Ptr, y.Len))
		}
	case IfaceV:
		y := b.(IfaceV)
		eq := st.ifaceEq(x, y)
		if op == token.EQL {
			return eq
		}
		return c.BNot(eq)
	case *Closure:
		// only comparison with nil
		isNil := x == nil
		if y, ok := b.(*Closure); ok && y != nil {
			st.abort(abUnsupported, "func comparison")
		}
		if op == token.EQL {
			return c.Bool(isNil)
		}
		return c.Bool(!isNil)
	case *BoundMethod:
		if op == token.EQL {
			return c.False
		}
		return c.True
	case MapRef:
		y := b.(MapRef)
		if op == token.EQL {
			return c.Bool(x == y)
		}
		return c.Bool(x != y)
	case ChanRef:
		y := b.(ChanRef)
		if op == token.EQL {
			return c.Bool(x == y)
		}
		return c.Bool(x != y)
	case Agg:
		y := b.(Agg)
		eq := st.aggEq(x, y)
		if op == token.EQL {
			return eq
		}
		return c.BNot(eq)
	}
	st.abort(abUnsupported, fmt.Sprintf("binop %s on %T", op, a))
	return nil
}

func (st *State) aggEq(x, y Agg) *Term {
	r := st.c.True
	for i := range x {
		var e *Term
		switch xi := x[i].(type) {
		case *Term:
			e = st.c.Eq(xi, y[i].(*Term))
		case Agg:
			e = st.aggEq(xi, y[i].(Agg))
		case IfaceV:
			e = st.ifaceEq(xi, y[i].(IfaceV))
		case StrV:
			yi := y[i].(StrV)
			e = st.bytesEqual(xi.Ptr, xi.Len, yi.Ptr, yi.Len)
		default:
			st.abort(abUnsupported, fmt.Sprintf("aggregate equality on %T", xi))
		}
		r = st.c.BAnd(r, e)
	}
	return r
}

func (st *State) ifaceEq(x, y IfaceV) *Term {
	if x.T == nil || y.T == nil {
		return st.c.Bool(x.T == nil && y.T == nil)
	}
	if !types.Identical(x.T, y.T) {
		return st.c.False
	}
	switch xv := x.V.(type) {
	case *Term:
		return st.c.Eq(xv, y.V.(*Term))
	case StrV:
		yv := y.V.(StrV)
		return st.bytesEqual(xv.Ptr, xv.Len, yv.Ptr, yv.Len)
	case Agg:
		return st.aggEq(xv, y.V.(Agg))
	}
	st.abort(abUnsupported, fmt.Sprintf("interface equality on %T", x.V))
	return nil
}

func (st *State) convert(v Value, from, to types.Type) Value {
	fu, tu := from.Underlying(), to.Underlying()
	switch x := v.(type) {
	case *Term:
		if x.W == 0 {
			return x
		}
		if tb, ok := tu.(*types.Basic); ok {
			if tb.Info()&types.IsFloat != 0 {
				if !x.IsConst() {
					st.abort(abUnsupported, "symbolic int to float conversion")
				}
				if isSigned(from) {
					return FloatV(float64(sext(x.C, x.W)))
				}
				return FloatV(float64(x.C))
			}
			if tb.Info()&types.IsString != 0 {
				// string(rune)
				if !x.IsConst() {
					st.abort(abUnsupported, "symbolic rune to string")
				}
				return st.constString(string(rune(x.C)))
			}
		}
		tw := 8 * sizeof(to)
		if tw == x.W {
			return x
		}
		if tw < x.W {
			return st.c.Extract(x, tw-1, 0)
		}
		if isSigned(from) {
			return st.c.SExt(x, tw)
		}
		return st.c.ZExt(x, tw)
	case FloatV:
		if tb, ok := tu.(*types.Basic); ok {
			if tb.Info()&types.IsFloat != 0 {
				if tb.Kind() == types.Float32 {
					return FloatV(float32(x))
				}
				return x
			}
			if tb.Info()&types.IsInteger != 0 {
				if tb.Info()&types.IsUnsigned != 0 {
					return st.c.Const(8*sizeof(to), uint64(x))
				}
				return st.c.Const(8*sizeof(to), uint64(int64(x)))
			}
		}
	case StrV:
		// string -> []byte / []rune
		if ts, ok := tu.(*types.Slice); ok {
			if sizeof(ts.Elem()) != 1 {
				st.abort(abUnsupported, "string to []rune")
			}
			n := int(st.concretize(x.Len, "string length"))
			o := st.newObj(n, "alloc", "[]byte(string)")
			o.ensure()
			if n > 0 {
				src := st.byteTerms(x.Ptr, x.Len, "string conversion")
				for i, b := range src {
					if !(b.IsConst() && b.C == 0) {
						o.setByte(i, b)
					}
				}
			}
			ln := st.c.Const(64, uint64(n))
			return SliceV{st.ptrTo(o, 0), ln, ln}
		}
		return x
	case SliceV:
		if _, ok := fu.(*types.Slice); ok {
			if tb, ok := tu.(*types.Basic); ok && tb.Info()&types.IsString != 0 {
				n := int(st.concretize(x.Len, "slice length"))
				o := st.newObj(n, "alloc", "string([]byte)")
				o.ensure()
				if n > 0 {
					src := st.byteTerms(x.Ptr, x.Len, "string conversion")
					for i, b := range src {
						if !(b.IsConst() && b.C == 0) {
							o.setByte(i, b)
						}
					}
				}
				return StrV{st.ptrTo(o, 0), st.c.Const(64, uint64(n))}
			}
			return x
		}
	}
	st.abort(abUnsupported, fmt.Sprintf("convert %s -> %s (%T)", from, to, v))
	return nil
}

// ---- indexing, slicing

func (st *State) boundsCheck(idx, n *Term, what string) {
	if !st.branch(st.c.Ult(idx, n)) {
		st.fail(what)
	}
}

func (st *State) toIndex(v Value, T types.Type) *Term {
	t := v.(*Term)
	if t.W < 64 {
		if isSigned(T) {
			return st.c.SExt(t, 64)
		}
		return st.c.ZExt(t, 64)
	}
	return t
}

func (st *State) indexAddr(fr *Frame, x *ssa.IndexAddr) Value {
	idx := st.toIndex(st.eval(fr, x.Index), x.Index.Type())
	base := st.eval(fr, x.X)
	switch T := x.X.Type().Underlying().(type) {
	case *types.Slice:
		s := base.(SliceV)
		st.boundsCheck(idx, s.Len, "index out of range")
		es := uint64(sizeof(T.Elem()))
		return st.c.Add(s.Ptr, st.c.Bin(OpMul, idx, st.c.Const(64, es)))
	case *types.Pointer:
		at := T.Elem().Underlying().(*types.Array)
		p := base.(*Term)
		if p.IsConst() && p.C == 0 {
			st.fail("nil pointer dereference (array index)")
		}
		st.boundsCheck(idx, st.c.Const(64, uint64(at.Len())), "index out of range")
		es := uint64(sizeof(at.Elem()))
		return st.c.Add(p, st.c.Bin(OpMul, idx, st.c.Const(64, es)))
	}
	st.abort(abUnsupported, "IndexAddr on "+x.X.Type().String())
	return nil
}

func (st *State) indexValue(fr *Frame, x *ssa.Index) Value {
	idx := st.toIndex(st.eval(fr, x.Index), x.Index.Type())
	switch b := st.eval(fr, x.X).(type) {
	case Agg:
		st.boundsCheck(idx, st.c.Const(64, uint64(len(b))), "index out of range")
		i := st.concretize(idx, "array index")
		return b[i]
	case StrV:
		st.boundsCheck(idx, b.Len, "string index out of range")
		return st.load(st.c.Add(b.Ptr, idx), types.Typ[types.Uint8])
	}
	st.abort(abUnsupported, "Index on "+x.X.Type().String())
	return nil
}

func (st *State) makeSlice(fr *Frame, x *ssa.MakeSlice) Value {
	ln := st.toIndex(st.eval(fr, x.Len), x.Len.Type())
	cp := st.toIndex(st.eval(fr, x.Cap), x.Cap.Type())
	es := sizeof(x.Type().Underlying().(*types.Slice).Elem())
	n := int(st.concretize(ln, "make len"))
	c := int(st.concretize(cp, "make cap"))
	if n < 0 || c < n {
		st.fail("makeslice: len out of range")
	}
	o := st.newObj(c*es, "alloc", x.Type().String())
	o.site = st.p.Fset.Position(x.Pos()).String()
	return SliceV{st.ptrTo(o, 0), st.c.Const(64, uint64(n)), st.c.Const(64, uint64(c))}
}

func (st *State) sliceOp(fr *Frame, x *ssa.Slice) Value {
	c := st.c
	var lo, hi, mx *Term
	if x.Low != nil {
		lo = st.toIndex(st.eval(fr, x.Low), x.Low.Type())
	} else {
		lo = st.zero64
	}
	if x.High != nil {
		hi = st.toIndex(st.eval(fr, x.High), x.High.Type())
	}
	if x.Max != nil {
		mx = st.toIndex(st.eval(fr, x.Max), x.Max.Type())
	}
	base := st.eval(fr, x.X)
	switch T := x.X.Type().Underlying().(type) {
	case *types.Slice:
		s := base.(SliceV)
		if hi == nil {
			hi = s.Len
		}
		capT := s.Cap
		if mx == nil {
			mx = capT
		}
		if !st.branch(c.BAnd(c.Ule(lo, hi), c.BAnd(c.Ule(hi, mx), c.Ule(mx, capT)))) {
			st.fail("slice bounds out of range")
		}
		es := uint64(sizeof(T.Elem()))
		ncap := c.Sub(mx, lo)
		ptr := c.Add(s.Ptr, c.Bin(OpMul, lo, c.Const(64, es)))
		return SliceV{ptr, c.Sub(hi, lo), ncap}
	case *types.Basic: // string
		s := base.(StrV)
		if hi == nil {
			hi = s.Len
		}
		if !st.branch(c.BAnd(c.Ule(lo, hi), c.Ule(hi, s.Len))) {
			st.fail("string slice bounds out of range")
		}
		return StrV{c.Add(s.Ptr, lo), c.Sub(hi, lo)}
	case *types.Pointer: // *array
		at := T.Elem().Underlying().(*types.Array)
		p := base.(*Term)
		n := c.Const(64, uint64(at.Len()))
		if hi == nil {
			hi = n
		}
		if mx == nil {
			mx = n
		}
		if !st.branch(c.BAnd(c.Ule(lo, hi), c.BAnd(c.Ule(hi, mx), c.Ule(mx, n)))) {
			st.fail("slice bounds out of range")
		}
		es := uint64(sizeof(at.Elem()))
		return SliceV{c.Add(p, c.Bin(OpMul, lo, c.Const(64, es))), c.Sub(hi, lo), c.Sub(mx, lo)}
	}
	st.abort(abUnsupported, "Slice on "+x.X.Type().String())
	return nil
}

func (st *State) typeAssert(fr *Frame, x *ssa.TypeAssert) Value {
	iv := st.eval(fr, x.X).(IfaceV)
	var ok bool
	var res Value
	if types.IsInterface(x.AssertedType) {
		if iv.T != nil {
			ok = types.Implements(iv.T, x.AssertedType.Underlying().(*types.Interface)) || st.specialImplements(iv, x.AssertedType)
		}
		if ok {
			res = iv
		} else {
			res = IfaceV{}
		}
	} else {
		ok = iv.T != nil && types.Identical(iv.T, x.AssertedType)
		if ok {
			res = iv.V
		} else {
			res = st.zero(x.AssertedType)
		}
	}
	if x.CommaOk {
		return Agg{res, st.c.Bool(ok)}
	}
	if !ok {
		st.fail(fmt.Sprintf("interface conversion: %v is not %v", iv.T, x.AssertedType))
	}
	return res
}

// ---- maps

func (st *State) keyEq(a, b Value) *Term {
	switch x := a.(type) {
	case *Term:
		return st.c.Eq(x, b.(*Term))
	case StrV:
		y := b.(StrV)
		return st.bytesEqual(x.Ptr, x.Len, y.Ptr, y.Len)
	case IfaceV:
		return st.ifaceEq(x, b.(IfaceV))
	}
	st.abort(abUnsupported, fmt.Sprintf("map key %T", a))
	return nil
}

func (st *State) mapFind(r MapRef, k Value) int {
	m := st.mapR(r)
	if m == nil {
		return -1
	}
	for i := range m.Keys {
		if st.branch(st.keyEq(m.Keys[i], k)) {
			return i
		}
	}
	return -1
}

func (st *State) mapUpdate(r MapRef, k, v Value) {
	if r == 0 {
		st.fail("assignment to entry in nil map")
	}
	i := st.mapFind(r, k)
	m := st.mapW(r)
	if i >= 0 {
		m.Vals[i] = v
		return
	}
	m.Keys = append(m.Keys, k)
	m.Vals = append(m.Vals, v)
}

func (st *State) mapDelete(r MapRef, k Value) {
	if i := st.mapFind(r, k); i >= 0 {
		m := st.mapW(r)
		m.Keys = append(m.Keys[:i:i], m.Keys[i+1:]...)
		m.Vals = append(m.Vals[:i:i], m.Vals[i+1:]...)
	}
}

func (st *State) lookup(fr *Frame, x *ssa.Lookup) Value {
	switch mr := st.eval(fr, x.X).(type) {
	case MapRef:
		k := st.eval(fr, x.Index)
		i := st.mapFind(mr, k)
		var v Value
		if i >= 0 {
			v = st.mapR(mr).Vals[i]
		} else {
			v = st.zero(x.X.Type().Underlying().(*types.Map).Elem())
		}
		if x.CommaOk {
			return Agg{v, st.c.Bool(i >= 0)}
		}
		return v
	case StrV:
		idx := st.toIndex(st.eval(fr, x.Index), x.Index.Type())
		st.boundsCheck(idx, mr.Len, "string index out of range")
		return st.load(st.c.Add(mr.Ptr, idx), types.Typ[types.Uint8])
	}
	st.abort(abUnsupported, "Lookup")
	return nil
}

// rangeIter is an immutable snapshot of the map at range start; the position lives in the state's iterator table.
type rangeIter struct {
	keys []Value
	vals []Value
}

func (st *State) rangeInit(fr *Frame, x *ssa.Range) Value {
	switch mr := st.eval(fr, x.X).(type) {
	case MapRef:
		it := &rangeIter{}
		if m := st.mapR(mr); m != nil {
			it.keys = append([]Value(nil), m.Keys...)
			it.vals = append([]Value(nil), m.Vals...)
		}
		st.iters = append(st.iters, it)
		st.iterPos = append(st.iterPos, 0)
		return IterRef(len(st.iters) - 1)
	case StrV:
		st.abort(abUnsupported, "range over string")
	}
	st.abort(abUnsupported, "Range")
	return nil
}

func (st *State) rangeNext(fr *Frame, x *ssa.Next) Value {
	r := st.eval(fr, x.Iter).(IterRef)
	it := st.iters[r]
	tt := x.Type().(*types.Tuple)
	i := st.iterPos[r]
	if i >= len(it.keys) {
		return Agg{st.c.False, st.zeroOrNil(tt.At(1).Type()), st.zeroOrNil(tt.At(2).Type())}
	}
	st.iterPos[r] = i + 1
	return Agg{st.c.True, it.keys[i], it.vals[i]}
}

func (st *State) zeroOrNil(T types.Type) Value {
	if b, ok := T.(*types.Basic); ok && b.Kind() == types.Invalid {
		return nil
	}
	return st.zero(T)
}

// describe renders a value for messages.
func (st *State) describe(v Value) string {
	switch x := v.(type) {
	case IfaceV:
		if x.T == nil {
			return "nil"
		}
		if s, ok := x.V.(StrV); ok {
			if b, ok := st.concreteBytes(s.Ptr, s.Len, "panic message"); ok {
				return string(b)
			}
		}
		if t, ok := x.V.(*Term); ok && t.IsConst() {
			if msg, ok := st.errMsgs[t.C]; ok {
				return msg
			}
		}
		return fmt.Sprintf("(%s) %v", x.T, x.V)
	case *Term:
		return x.String()
	}
	return fmt.Sprintf("%v", v)
}
