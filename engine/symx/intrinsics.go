package symx

import (
	"fmt"
	"go/types"
	"path/filepath"
	"strings"

	"golang.org/x/tools/go/ssa"
)

type intrinsicFn func(st *State, th *Thread, args []Value, callIns ssa.Instruction) (Value, bool)

var intrinsics = map[string]intrinsicFn{}
var visibleIntrinsics = map[string]bool{}

func reg(name string, f intrinsicFn) { intrinsics[name] = f }

// harness functions live in the package under test; they are registered by suffix for every target package.
var harnessIntrinsics = map[string]intrinsicFn{}

func (p *Program) registerHarness() {
	for _, pkg := range p.Targets {
		for name, f := range harnessIntrinsics {
			intrinsics[pkg.Pkg.Path()+"."+name] = f
		}
	}
}

func tw(t Value) *Term { return t.(*Term) }

func init() {
	// ---------------- harness API
	h := harnessIntrinsics
	h["vByte"] = func(st *State, th *Thread, a []Value, _ ssa.Instruction) (Value, bool) {
		return st.symInput(st.inputName(a[0], a[1]), 8), true
	}
	h["vU16"] = func(st *State, th *Thread, a []Value, _ ssa.Instruction) (Value, bool) {
		return st.symInput(st.inputName(a[0], a[1]), 16), true
	}
	h["vU32"] = func(st *State, th *Thread, a []Value, _ ssa.Instruction) (Value, bool) {
		return st.symInput(st.inputName(a[0], a[1]), 32), true
	}
	h["vInt"] = func(st *State, th *Thread, a []Value, _ ssa.Instruction) (Value, bool) {
		return st.symInput(st.inputName(a[0], a[1]), 64), true
	}
	h["vBool"] = func(st *State, th *Thread, a []Value, _ ssa.Instruction) (Value, bool) {
		return st.symInput(st.inputName(a[0], a[1]), 0), true
	}
	// vChoice(name, idx, n): concrete value in [0,n), forked
	h["vChoice"] = func(st *State, th *Thread, a []Value, _ ssa.Instruction) (Value, bool) {
		name := st.inputName(a[0], a[1])
		n := int(st.concretize(tw(a[2]), "vChoice arity"))
		k := st.choose(n)
		st.inputs[name] = uint64(k)
		return st.c.Const(64, uint64(k)), true
	}
	// vRange(name, idx, lo, hi): symbolic int in [lo,hi], concretised by forking
	h["vRange"] = func(st *State, th *Thread, a []Value, _ ssa.Instruction) (Value, bool) {
		name := st.inputName(a[0], a[1])
		lo := int(st.concretize(tw(a[2]), "vRange lo"))
		hi := int(st.concretize(tw(a[3]), "vRange hi"))
		k := lo
		if hi > lo {
			k = lo + st.choose(hi-lo+1)
		}
		st.inputs[name] = uint64(k)
		return st.c.Const(64, uint64(k)), true
	}
	h["vBound"] = func(st *State, th *Thread, a []Value, _ ssa.Instruction) (Value, bool) {
		name := st.goString(a[0], "vBound name")
		v, ok := st.p.Cfg.Bounds[name]
		if !ok {
			st.abort(abUnsupported, "vBound: no bound named "+name)
		}
		return st.c.Const(64, uint64(v)), true
	}
	h["vAssume"] = func(st *State, th *Thread, a []Value, _ ssa.Instruction) (Value, bool) {
		c := tw(a[0])
		if c.IsTrue() {
			return nil, true
		}
		if c.IsFalse() {
			st.abort(abInfeasible, "assume false")
		}
		if v, ok := st.evalModel(c); ok && v == 1 {
			st.addPC(c)
			return nil, true
		}
		if st.pos < len(st.prefix) {
			// still replaying: the decisions ahead were found feasible under this assumption
			st.addPC(c)
			st.model = nil
			return nil, true
		}
		r, m := st.query(c)
		if r == Unsat {
			st.abort(abInfeasible, "assume infeasible")
		}
		if r == Unknown {
			st.assertsU++
		}
		st.addPC(c)
		st.model = m
		return nil, true
	}
	h["vAssert"] = func(st *State, th *Thread, a []Value, _ ssa.Instruction) (Value, bool) {
		c := tw(a[0])
		st.asserts++
		if c.IsTrue() {
			return nil, true
		}
		msg := st.goString(a[1], "vAssert message")
		if c.IsFalse() {
			st.flushAsserts()
			st.recordViolation("assertion failed: "+msg, "assert", nil)
			panic(pathAbort{abFail, msg})
		}
		st.pendA = append(st.pendA, c)
		st.pendMsg = append(st.pendMsg, msg+" @ "+st.callerPos(th))
		if len(st.pendA) >= 24 {
			st.flushAsserts()
		}
		return nil, true
	}
	h["vReach"] = func(st *State, th *Thread, a []Value, _ ssa.Instruction) (Value, bool) {
		st.reached[st.goString(a[0], "vReach label")] = true
		return nil, true
	}
	h["vFail"] = func(st *State, th *Thread, a []Value, _ ssa.Instruction) (Value, bool) {
		st.asserts++
		st.fail("assertion failed: " + st.goString(a[0], "vFail message"))
		return nil, true
	}
	h["vYield"] = func(st *State, th *Thread, a []Value, _ ssa.Instruction) (Value, bool) {
		// give every other runnable goroutine a chance; the next one is a scheduling choice
		if th.wake != nil {
			th.wake = nil
			return nil, true
		}
		th.wake = &wakeInfo{}
		th.yields++
		th.yielding = true
		st.block(th, waitNone, 0)
		return nil, false
	}
	// vQuiesce blocks until every other goroutine is finished or blocked.
	h["vQuiesce"] = func(st *State, th *Thread, a []Value, _ ssa.Instruction) (Value, bool) {
		th.wkind = waitQuiet
		if st.waitSatisfied(th) {
			th.wkind = waitNone
			return nil, true
		}
		st.block(th, waitQuiet, 0)
		return nil, false
	}
	h["vThread"] = func(st *State, th *Thread, a []Value, _ ssa.Instruction) (Value, bool) {
		th.label = st.goString(a[0], "thread name")
		return nil, true
	}
	h["vThreadDone"] = func(st *State, th *Thread, a []Value, _ ssa.Instruction) (Value, bool) {
		return nil, true
	}
	h["vConcurrent"] = func(st *State, th *Thread, a []Value, _ ssa.Instruction) (Value, bool) {
		on := tw(a[0]).IsTrue()
		st.concurrent = on
		if on {
			// everything allocated so far is shared
			for _, o := range st.objs {
				if o.owner != -1 {
					st.wobj(o).owner = -1
				}
			}
		}
		return nil, true
	}
	// tracking allocator
	h["vAlloc"] = func(st *State, th *Thread, a []Value, callIns ssa.Instruction) (Value, bool) {
		n := int(st.concretize(tw(a[0]), "vAlloc size"))
		o := st.newObj(n, "user", fmt.Sprintf("block(%d)", n))
		o.user = true
		o.ensure()
		if callIns != nil {
			o.site = st.callerPos(th)
		}
		// fresh user memory is arbitrary: fill with symbolic garbage so uninitialised reads are not silently zero
		if n >= bigObj {
			o.fill = st.c.Const(8, 0xa5)
		} else {
			for i := 0; i < n; i++ {
				o.setByte(i, st.c.Const(8, 0xa5))
			}
		}
		st.userLive[o.id] = true
		st.userAllocs++
		return st.ptrTo(o, 0), true
	}
	h["vFree"] = func(st *State, th *Thread, a []Value, _ ssa.Instruction) (Value, bool) {
		p := st.constAddr(tw(a[0]), "vFree pointer")
		id := int(p>>objShift) - 1
		if p == 0 || id < 0 || id >= len(st.objs) || !st.objs[id].user || p != st.objs[id].base() {
			st.fail(fmt.Sprintf("free of a pointer that was never allocated: %#x", p))
		}
		o := st.wobj(st.objs[id])
		if o.freed {
			st.fail(fmt.Sprintf("double free of block %s (obj %d, allocated at %s)", o.label, o.id, o.site))
		}
		o.freed = true
		delete(st.userLive, o.id)
		st.userFrees++
		return nil, true
	}
	// vClock: a logical clock for invocation/response timestamps of operations (linearizability checks). It is not
	// a visible step: the value only reflects the order in which the scheduler ran the callers.
	h["vClock"] = func(st *State, th *Thread, a []Value, _ ssa.Instruction) (Value, bool) {
		st.clock++
		return st.c.Const(64, uint64(st.clock)), true
	}
	h["vLiveBlocks"] = func(st *State, th *Thread, a []Value, _ ssa.Instruction) (Value, bool) {
		return st.c.Const(64, uint64(len(st.userLive))), true
	}
	h["vIsLive"] = func(st *State, th *Thread, a []Value, _ ssa.Instruction) (Value, bool) {
		p := st.constAddr(tw(a[0]), "vIsLive pointer")
		id := int(p>>objShift) - 1
		if p == 0 || id < 0 || id >= len(st.objs) {
			return st.c.False, true
		}
		return st.c.Bool(!st.objs[id].freed), true
	}
	h["vRand"] = func(st *State, th *Thread, a []Value, _ ssa.Instruction) (Value, bool) {
		name := st.goString(a[0], "vRand name")
		o := st.newObj(64, "alloc", "rand:"+name)
		st.randName[o.base()] = name
		return st.ptrTo(o, 0), true
	}
	h["vCoin"] = func(st *State, th *Thread, a []Value, _ ssa.Instruction) (Value, bool) {
		name := st.goString(a[0], "vCoin name")
		return st.coin(name), true
	}
	h["vAnd"] = func(st *State, th *Thread, a []Value, _ ssa.Instruction) (Value, bool) {
		return st.c.BAnd(tw(a[0]), tw(a[1])), true
	}
	h["vOr"] = func(st *State, th *Thread, a []Value, _ ssa.Instruction) (Value, bool) {
		return st.c.BOr(tw(a[0]), tw(a[1])), true
	}
	h["vNot"] = func(st *State, th *Thread, a []Value, _ ssa.Instruction) (Value, bool) {
		return st.c.BNot(tw(a[0])), true
	}
	h["vB2I"] = func(st *State, th *Thread, a []Value, _ ssa.Instruction) (Value, bool) {
		return st.c.BoolToBV(tw(a[0]), 64), true
	}
	h["vIteInt"] = func(st *State, th *Thread, a []Value, _ ssa.Instruction) (Value, bool) {
		return st.c.Ite(tw(a[0]), tw(a[1]), tw(a[2])), true
	}
	h["vLog"] = func(st *State, th *Thread, a []Value, _ ssa.Instruction) (Value, bool) {
		return nil, true
	}

	// ---------------- sync/atomic
	atomicLoad := func(n int) intrinsicFn {
		return func(st *State, th *Thread, a []Value, _ ssa.Instruction) (Value, bool) {
			return st.loadBits(st.constAddr(tw(a[0]), "atomic load"), n), true
		}
	}
	atomicStore := func(n int) intrinsicFn {
		return func(st *State, th *Thread, a []Value, _ ssa.Instruction) (Value, bool) {
			addr := st.constAddr(tw(a[0]), "atomic store")
			st.storeBits(addr, n, tw(a[1]))
			st.publishAddr(addr, n)
			return nil, true
		}
	}
	atomicAdd := func(n int) intrinsicFn {
		return func(st *State, th *Thread, a []Value, _ ssa.Instruction) (Value, bool) {
			addr := st.constAddr(tw(a[0]), "atomic add")
			v := st.c.Add(st.loadBits(addr, n), tw(a[1]))
			st.storeBits(addr, n, v)
			return v, true
		}
	}
	atomicSwap := func(n int) intrinsicFn {
		return func(st *State, th *Thread, a []Value, _ ssa.Instruction) (Value, bool) {
			addr := st.constAddr(tw(a[0]), "atomic swap")
			old := st.loadBits(addr, n)
			st.storeBits(addr, n, tw(a[1]))
			st.publishAddr(addr, n)
			return old, true
		}
	}
	atomicCAS := func(n int) intrinsicFn {
		return func(st *State, th *Thread, a []Value, _ ssa.Instruction) (Value, bool) {
			addr := st.constAddr(tw(a[0]), "atomic cas")
			cur := st.loadBits(addr, n)
			if st.branch(st.c.Eq(cur, tw(a[1]))) {
				st.storeBits(addr, n, tw(a[2]))
				st.publishAddr(addr, n)
				return st.c.True, true
			}
			return st.c.False, true
		}
	}
	for _, t := range []struct {
		s string
		n int
	}{{"Int32", 4}, {"Uint32", 4}, {"Int64", 8}, {"Uint64", 8}, {"Uintptr", 8}, {"Pointer", 8}} {
		reg("sync/atomic.Load"+t.s, atomicLoad(t.n))
		reg("sync/atomic.Store"+t.s, atomicStore(t.n))
		reg("sync/atomic.Swap"+t.s, atomicSwap(t.n))
		reg("sync/atomic.CompareAndSwap"+t.s, atomicCAS(t.n))
		if t.s != "Pointer" {
			reg("sync/atomic.Add"+t.s, atomicAdd(t.n))
		}
		for _, op := range []string{"Load", "Store", "Swap", "CompareAndSwap", "Add"} {
			visibleIntrinsics["sync/atomic."+op+t.s] = true
		}
	}

	// ---------------- sync.Mutex / WaitGroup (state kept in the first bytes of the struct)
	reg("(*sync.Mutex).Lock", func(st *State, th *Thread, a []Value, _ ssa.Instruction) (Value, bool) {
		addr := st.constAddr(tw(a[0]), "mutex")
		v := st.loadBits(addr, 4)
		if v.IsConst() && v.C == 0 {
			st.storeBits(addr, 4, st.c.Const(32, 1))
			return nil, true
		}
		st.block(th, waitMutex, addr)
		return nil, false
	})
	reg("(*sync.Mutex).Unlock", func(st *State, th *Thread, a []Value, _ ssa.Instruction) (Value, bool) {
		addr := st.constAddr(tw(a[0]), "mutex")
		v := st.loadBits(addr, 4)
		if v.IsConst() && v.C == 0 {
			st.fail("sync: unlock of unlocked mutex")
		}
		st.storeBits(addr, 4, st.c.Const(32, 0))
		return nil, true
	})
	visibleIntrinsics["(*sync.Mutex).Lock"] = true
	visibleIntrinsics["(*sync.Mutex).Unlock"] = true
	reg("(*sync.WaitGroup).Add", func(st *State, th *Thread, a []Value, _ ssa.Instruction) (Value, bool) {
		addr := st.constAddr(tw(a[0]), "waitgroup")
		v := st.c.Add(st.loadBits(addr, 8), tw(a[1]))
		if v.IsConst() && int64(v.C) < 0 {
			st.fail("sync: negative WaitGroup counter")
		}
		st.storeBits(addr, 8, v)
		return nil, true
	})
	reg("(*sync.WaitGroup).Done", func(st *State, th *Thread, a []Value, _ ssa.Instruction) (Value, bool) {
		addr := st.constAddr(tw(a[0]), "waitgroup")
		v := st.c.Sub(st.loadBits(addr, 8), st.c.Const(64, 1))
		if v.IsConst() && int64(v.C) < 0 {
			st.fail("sync: negative WaitGroup counter")
		}
		st.storeBits(addr, 8, v)
		return nil, true
	})
	reg("(*sync.WaitGroup).Wait", func(st *State, th *Thread, a []Value, _ ssa.Instruction) (Value, bool) {
		addr := st.constAddr(tw(a[0]), "waitgroup")
		if x := st.loadBits(addr, 8); x.IsConst() && x.C == 0 {
			return nil, true
		}
		st.block(th, waitWG, addr)
		return nil, false
	})
	visibleIntrinsics["(*sync.WaitGroup).Add"] = true
	visibleIntrinsics["(*sync.WaitGroup).Done"] = true
	visibleIntrinsics["(*sync.WaitGroup).Wait"] = true

	// ---------------- runtime / time
	reg("runtime.NumCPU", func(st *State, th *Thread, a []Value, _ ssa.Instruction) (Value, bool) {
		return st.c.Const(64, uint64(st.p.Cfg.NumCPU)), true
	})
	reg("runtime.GOMAXPROCS", func(st *State, th *Thread, a []Value, _ ssa.Instruction) (Value, bool) {
		return st.c.Const(64, uint64(st.p.Cfg.NumCPU)), true
	})
	reg("runtime.Gosched", func(st *State, th *Thread, a []Value, _ ssa.Instruction) (Value, bool) {
		return nil, true
	})
	reg("time.Sleep", func(st *State, th *Thread, a []Value, _ ssa.Instruction) (Value, bool) {
		// a polling loop: not runnable again until another goroutine has run
		th.sleeping = true
		th.sleepGen = st.runGen
		return nil, true
	})

	// ---------------- math/rand
	reg("(*math/rand.Rand).Float32", func(st *State, th *Thread, a []Value, _ ssa.Instruction) (Value, bool) {
		name := "rand"
		if p := tw(a[0]); p.IsConst() {
			if n, ok := st.randName[p.C]; ok {
				name = n
			}
		}
		if st.coin(name).IsTrue() {
			return FloatV(0), true
		}
		return FloatV(1), true
	})
	reg("math/rand.Float32", func(st *State, th *Thread, a []Value, _ ssa.Instruction) (Value, bool) {
		if st.p.Cfg.GlobalCoins && st.coin("global").IsTrue() {
			return FloatV(0), true
		}
		return FloatV(1), true
	})
	reg("math/rand.Int", func(st *State, th *Thread, a []Value, _ ssa.Instruction) (Value, bool) {
		return st.c.Const(64, 4), true
	})
	reg("math/rand.NewSource", func(st *State, th *Thread, a []Value, _ ssa.Instruction) (Value, bool) {
		return IfaceV{}, true
	})
	reg("math/rand.New", func(st *State, th *Thread, a []Value, _ ssa.Instruction) (Value, bool) {
		o := st.newObj(64, "alloc", "rand.Rand")
		st.nRand++
		st.randName[o.base()] = fmt.Sprintf("r%d", st.nRand)
		return st.ptrTo(o, 0), true
	})

	// ---------------- reflect (only what allocNode / Item.Bytes use)
	reg("reflect.TypeOf", func(st *State, th *Thread, a []Value, _ ssa.Instruction) (Value, bool) {
		iv := a[0].(IfaceV)
		return IfaceV{T: st.p.rtypeMarker(), V: RTypeV{iv.T}}, true
	})
	reg("reflect.New", func(st *State, th *Thread, a []Value, _ ssa.Instruction) (Value, bool) {
		rt := a[0].(IfaceV).V.(RTypeV)
		o := st.newObj(sizeof(rt.T), "alloc", "reflect.New("+rt.T.String()+")")
		o.site = st.callerPos(th)
		return RValueV{st.ptrTo(o, 0)}, true
	})
	reg("(reflect.Value).Pointer", func(st *State, th *Thread, a []Value, _ ssa.Instruction) (Value, bool) {
		return a[0].(RValueV).Ptr, true
	})

	// ---------------- fmt / errors / strings
	reg("errors.New", func(st *State, th *Thread, a []Value, _ ssa.Instruction) (Value, bool) {
		return st.opaqueError(st.goString(a[0], "errors.New")), true
	})
	reg("fmt.Errorf", func(st *State, th *Thread, a []Value, _ ssa.Instruction) (Value, bool) {
		return st.opaqueError(st.sprintf(a[0], a[1])), true
	})
	reg("fmt.Sprintf", func(st *State, th *Thread, a []Value, _ ssa.Instruction) (Value, bool) {
		return st.constString(st.sprintf(a[0], a[1])), true
	})
	reg("fmt.Sprint", func(st *State, th *Thread, a []Value, _ ssa.Instruction) (Value, bool) {
		return st.constString("<fmt.Sprint>"), true
	})
	noop := func(st *State, th *Thread, a []Value, _ ssa.Instruction) (Value, bool) {
		return Agg{st.zero64, IfaceV{}}, true
	}
	reg("fmt.Println", noop)
	reg("fmt.Printf", noop)
	reg("fmt.Print", noop)
	reg("path/filepath.Join", func(st *State, th *Thread, a []Value, _ ssa.Instruction) (Value, bool) {
		s := a[0].(SliceV)
		n := int(st.concretize(s.Len, "Join args"))
		parts := make([]string, n)
		for i := 0; i < n; i++ {
			e := st.loadAt(st.constAddr(s.Ptr, "Join")+uint64(16*i), types.Typ[types.String])
			parts[i] = st.goString(e, "Join element")
		}
		return st.constString(filepath.Join(parts...)), true
	})

	// ---------------- bytes / crc
	reg("bytes.Compare", func(st *State, th *Thread, a []Value, _ ssa.Instruction) (Value, bool) {
		x, y := a[0].(SliceV), a[1].(SliceV)
		return st.bytesCompare(x.Ptr, x.Len, y.Ptr, y.Len), true
	})
	reg("bytes.Equal", func(st *State, th *Thread, a []Value, _ ssa.Instruction) (Value, bool) {
		x, y := a[0].(SliceV), a[1].(SliceV)
		return st.bytesEqual(x.Ptr, x.Len, y.Ptr, y.Len), true
	})
	reg("hash/crc32.ChecksumIEEE", func(st *State, th *Thread, a []Value, _ ssa.Instruction) (Value, bool) {
		x := a[0].(SliceV)
		bs := st.byteTerms(x.Ptr, x.Len, "crc32")
		return st.crc32(bs), true
	})
}

func (st *State) publishAddr(addr uint64, n int) {
	if !st.concurrent {
		return
	}
	id := int(addr>>objShift) - 1
	if id < 0 || id >= len(st.objs) {
		return
	}
	st.publishRange(st.objs[id], int(addr&(objMaxSize-1)), n)
}

func (st *State) callerPos(th *Thread) string {
	for fr := th.fr; fr != nil; fr = fr.caller {
		if fr.ip < len(fr.block.Instrs) {
			if p := fr.block.Instrs[fr.ip].Pos(); p.IsValid() {
				return st.p.Fset.Position(p).String()
			}
		}
	}
	return ""
}

func (st *State) inputName(name, idx Value) string {
	n := st.goString(name, "input name")
	i := st.concretize(tw(idx), "input index")
	return fmt.Sprintf("%s_%d", n, i)
}

func (st *State) symInput(name string, w int) *Term {
	if t, ok := st.symIn[name]; ok {
		return t
	}
	t := st.newVar("in_"+name, w)
	st.symIn[name] = t
	return t
}

// coin: one fresh forked boolean; at most MaxLevel consecutive trues per name.
func (st *State) coin(name string) *Term {
	k := st.coinIdx[name]
	key := fmt.Sprintf("coin_%s_%d", name, k)
	if st.coinRun[name] >= st.p.Cfg.MaxLevel {
		st.coinIdx[name] = k + 1
		st.coinRun[name] = 0
		st.inputs[key] = 0
		return st.c.False
	}
	// choice 0 = tails (false) first: most nodes are level 0. The decision comes before any state change
	// so that a state forked at the decision can re-execute this step.
	heads := st.choose(2) == 1
	st.coinIdx[name] = k + 1
	if heads {
		st.coinRun[name]++
		st.inputs[key] = 1
		return st.c.True
	}
	st.coinRun[name] = 0
	st.inputs[key] = 0
	return st.c.False
}

// crc32 is an uninterpreted function per input length (congruence only).
func (st *State) crc32(bs []*Term) *Term {
	allConst := true
	for _, b := range bs {
		if !b.IsConst() {
			allConst = false
		}
	}
	if allConst {
		buf := make([]byte, len(bs))
		for i, b := range bs {
			buf[i] = byte(b.C)
		}
		return st.c.Const(32, uint64(crc32IEEE(buf)))
	}
	return st.c.UF(fmt.Sprintf("crc32_%d", len(bs)), 32, bs)
}

// sprintf renders a format with concrete arguments.
func (st *State) sprintf(format Value, argv Value) string {
	f := st.goString(format, "format")
	s := argv.(SliceV)
	n := int(st.concretize(s.Len, "format args"))
	args := make([]interface{}, n)
	for i := 0; i < n; i++ {
		e := st.loadAt(st.constAddr(s.Ptr, "format args")+uint64(16*i), types.NewInterfaceType(nil, nil)).(IfaceV)
		args[i] = st.goValue(e)
	}
	return fmt.Sprintf(f, args...)
}

func (st *State) goValue(e IfaceV) interface{} {
	if e.T == nil {
		return nil
	}
	switch v := e.V.(type) {
	case *Term:
		if v.W == 0 {
			if v.IsConst() {
				return v.C == 1
			}
			return "<sym-bool>"
		}
		if !v.IsConst() {
			return "<sym>"
		}
		if e.T == st.p.opaqueErrType() {
			return st.errMsgs[v.C]
		}
		if isSigned(e.T) {
			return sext(v.C, v.W)
		}
		return v.C
	case StrV:
		if b, ok := st.concreteBytes(v.Ptr, v.Len, "format arg"); ok {
			return string(b)
		}
		return "<sym-string>"
	case FloatV:
		return float64(v)
	}
	return fmt.Sprintf("<%T>", e.V)
}

var rtypeMarkerT types.Type

func (p *Program) rtypeMarker() types.Type {
	p.fnMu.Lock()
	defer p.fnMu.Unlock()
	if rtypeMarkerT == nil {
		tn := types.NewTypeName(0, nil, "verifRType", nil)
		rtypeMarkerT = types.NewNamed(tn, types.NewStruct(nil, nil), nil)
	}
	return rtypeMarkerT
}

func hasPrefixAny(s string, ps ...string) bool {
	for _, p := range ps {
		if strings.HasPrefix(s, p) {
			return true
		}
	}
	return false
}
