package symx

import (
	"fmt"
	"go/token"
	"go/types"
	"math"
	"os"
	"sort"
	"strings"
	"sync"

	"golang.org/x/tools/go/ssa"
)

// Program is the immutable, shared part: SSA of /repo (+ overlay harness) and configuration.
type Program struct {
	Prog     *ssa.Program
	Fset     *token.FileSet
	Pkgs     map[string]*ssa.Package // by import path
	Targets  []*ssa.Package          // packages whose init is executed
	offCache map[*types.Struct][]int64
	offMu    sync.Mutex
	Cfg      *Config

	fnMu     sync.Mutex
	fnNames  map[*ssa.Function]string
	executed map[string]int // function -> number of instructions executed (aggregated)
	stubs    map[string]int // intrinsic name -> calls

	cellMu      sync.RWMutex
	fnInfos     sync.Map
	offs        sync.Map
	written     map[string]bool
	writtenFrozen map[string]bool
	writtenGrew bool
}

type Config struct {
	Entry       string         // harness function name (in Package)
	Package     string         // import path of the package holding the harness
	Bounds      map[string]int // vBound values
	MaxInstr    int            // per-path instruction budget
	LoopBudget  int            // per-path budget for any single back edge
	Solver      string
	TimeoutMs   int
	Workers     int
	Preempt     int // preemption bound for fine-grained scheduling; <0 = cooperative only
	MaxLevel    int // consecutive successful coin flips allowed
	StopOnFirst bool
	MaxViolations int // stop after this many violating paths (0 = unlimited)
	MaxPaths    int
	NumCPU      int
	GlobalCoins bool // math/rand.Float32 (package level) is a forked coin; else always tails (level 0)
	PreemptNamed bool // preemptive switches only from/to goroutines named by the harness (vThread); unnamed (internal worker) goroutines run at non-preemptive points
	Deviations  int  // with SchedFree: how many times a non-default (not lowest-id) goroutine may be picked at a non-preemptive point; <0 = unlimited
	SchedFree   bool // at blocking points the next thread is a free (forked) choice; else lowest id
}

type abortKind int

const (
	abInfeasible abortKind = iota // assume failed / infeasible
	abFail                        // property violation or runtime failure
	abUnsupported                 // engine limitation: run is not clean
	abBound                       // budget exceeded: run is not clean
	abDone                        // main finished
)

type pathAbort struct {
	kind abortKind
	msg  string
}

// Dec is one recorded decision of a path.
type Dec struct {
	C int32  // chosen alternative
	V uint64 // value for concretisation decisions
}

type Violation struct {
	Msg    string
	Trace  []Dec
	Inputs map[string]uint64
	Model  Model
	Sched  []SchedEvent
	Stack  string
	Kind   string // "assert", "runtime"
}

type SchedEvent struct {
	Thread int    `json:"thread"`
	Pos    string `json:"pos"`  // source position of the preempted visible operation
	Nth    int    `json:"nth"`  // the nth time this thread reached Pos
	To     int    `json:"to"`   // thread switched to
	Kind   string `json:"kind"` // "preempt", "block", "done"
	FromName string `json:"from_name,omitempty"`
	ToName   string `json:"to_name,omitempty"`
}

type Frame struct {
	fn      *ssa.Function
	locals  []Value
	info    *fnInfo
	env     []Value
	block   *ssa.BasicBlock
	prev    *ssa.BasicBlock
	ip      int
	defers  []deferred
	caller  *Frame
	callIns ssa.Instruction // instruction in caller awaiting result (nil for go/defer)
	result  Value
	isDefer bool // frame runs a deferred call: on return, re-execute RunDefers in caller
}

type deferred struct {
	fn   Value
	args []Value
	bi   *ssa.Builtin
}

type threadStatus int

const (
	thReady threadStatus = iota
	thBlocked
	thDone
)

type waitCase struct {
	ch  ChanRef
	dir types.ChanDir
	val Value
	idx int
}

type wakeInfo struct {
	idx int
	val Value
	ok  bool
}

type Thread struct {
	id       int
	fr       *Frame
	status   threadStatus
	waits    []waitCase
	wake     *wakeInfo
	wkind    waitKind
	waddr    uint64
	sleeping bool
	sleepGen int
	yields   int  // vYield calls so far
	yielding bool // blocked in vYield right now
	noPreempt bool // resume the pending visible op without asking again
	name     string
	hits     map[string]int
	ihits    map[ssa.Instruction]int
	label    string // harness-given name (vThread)
	started  bool   // has executed at least one instruction
}

type State struct {
	clock int // vClock counter
	p *Program
	c *TermCtx
	s *Solver

	objs        []*Obj
	handles     []interface{}
	handleOf    map[interface{}]uint64
	typeHandles map[string]uint64
	typeHandlesP map[types.Type]uint64
	strCache    map[string]StrV
	globals     map[*ssa.Global]*Obj
	zero8       *Term
	zero64      *Term

	maps    []*MapObj
	chans   []*ChanObj
	iters   []*rangeIter
	iterPos []int

	threads []*Thread
	cur     *Thread
	runGen  int

	pc     []*Term
	synced int
	model  Model
	vars   []*Term
	varSet map[string]*Term

	prefix []Dec
	pos    int
	trace  []Dec
	newAlt func(tr []Dec)

	inputs   map[string]uint64
	symIn    map[string]*Term // named symbolic inputs
	sched    []SchedEvent
	coinRun  map[string]int
	coinIdx  map[string]int
	randName map[uint64]string

	nInstr     int
	nAllocs    int
	backEdges  map[*ssa.BasicBlock]int
	preemptLeft int
	devLeft     int
	concurrent bool // fine-grained phase active

	reached  map[string]bool
	asserts  int
	assertsU int // inconclusive
	fnCount  map[*ssa.Function]int
	stubCnt  map[string]int

	fs *FS

	userLive map[int]bool // tracking allocator: live object ids
	ghost    map[string]Value

	violation *Violation
	known     map[*Term]bool
	knownHits int
	instrBase int      // instructions executed by ancestors (for the per-path budget)
	stepStart int      // len(trace) when the current scheduler iteration began
	restart   bool     // first iteration of a forked state: the step is being re-executed
	resumed   bool     // state was produced by fork (threads already exist)
	w         *worker
	gen       int
	pendA     []*Term
	pendMsg   []string
	errMsgs       map[uint64]string
	sharedHandles map[interface{}]bool
	userAllocs    int
	userFrees     int
	nRand         int
	lastPos   token.Pos
}

func (st *State) curThreadID() int {
	if st.cur == nil {
		return -1
	}
	return st.cur.id
}

func (st *State) abort(k abortKind, msg string) {
	if k == abBound && st.violation == nil {
		// a path that exhausts its loop / instruction budget may be a genuine non-termination: keep its inputs
		// so that the driver can try it against the real build (confirmed only if that run hangs too)
		func() {
			defer func() { recover() }()
			st.recordViolation("hang: "+msg+" (budget exhausted: possible non-termination)", "bound", nil)
		}()
	}
	panic(pathAbort{k, msg})
}

// fail reports a runtime failure / violated assertion on the current path.
func (st *State) fail(msg string) {
	st.flushAsserts()
	st.recordViolation(msg, "runtime", nil)
	panic(pathAbort{abFail, msg})
}

func (st *State) recordViolation(msg, kind string, m Model) {
	if m == nil {
		m = st.currentModel()
	}
	v := &Violation{Msg: msg, Kind: kind, Trace: append([]Dec(nil), st.trace...), Model: m, Inputs: map[string]uint64{}}
	for k, val := range st.inputs {
		v.Inputs[k] = val
	}
	for name, t := range st.symIn {
		if val, ok := st.c.Eval(t, m, map[*Term]uint64{}); ok {
			v.Inputs[name] = val
		}
	}
	v.Sched = append([]SchedEvent(nil), st.sched...)
	for i := range v.Sched {
		e := &v.Sched[i]
		if e.Thread >= 0 && e.Thread < len(st.threads) {
			e.FromName = st.threads[e.Thread].label
		}
		if e.To >= 0 && e.To < len(st.threads) {
			e.ToName = st.threads[e.To].label
		}
	}
	v.Stack = st.stackString()
	if os.Getenv("VERIF_DUMPPC") != "" {
		for _, t := range st.pc {
			v.Stack += "  pc: " + st.c.Print(t) + "\n"
		}
	}
	st.violation = v
}

func (st *State) stackString() string {
	var sb strings.Builder
	if st.cur == nil {
		return ""
	}
	for fr := st.cur.fr; fr != nil; fr = fr.caller {
		pos := ""
		if fr.block != nil && fr.ip < len(fr.block.Instrs) {
			pos = st.p.Fset.Position(fr.block.Instrs[fr.ip].Pos()).String()
		}
		fmt.Fprintf(&sb, "  %s %s\n", fr.fn.String(), pos)
	}
	return sb.String()
}

// flushAsserts discharges the pending assertions with one query: pc ∧ ¬(a1 ∧ ... ∧ an).
// Assertions are never assumed, so every input reaches the end of some explored path and is covered by that
// path's flush.
func (st *State) flushAsserts() {
	if len(st.pendA) == 0 {
		return
	}
	pa, pm := st.pendA, st.pendMsg
	st.pendA, st.pendMsg = nil, nil
	conj := st.c.True
	for _, a := range pa {
		conj = st.c.BAnd(conj, a)
	}
	r, m := st.query(st.c.BNot(conj))
	switch r {
	case Sat:
		msg := "one of: " + pm[0]
		memo := map[*Term]uint64{}
		for i, a := range pa {
			if v, ok := st.c.Eval(a, m, memo); ok && v == 0 {
				msg = pm[i]
				break
			}
		}
		st.recordViolation("assertion failed: "+msg, "assert", m)
		panic(pathAbort{abFail, msg})
	case Unknown:
		st.assertsU++
	}
}

// ---- path condition and solver interaction

func (st *State) newVar(name string, w int) *Term {
	name = sanitize(name)
	if v, ok := st.varSet[name]; ok {
		return v
	}
	v := st.c.Var(name, w)
	st.vars = append(st.vars, v)
	st.varSet[name] = v
	return v
}

func sanitize(s string) string {
	var sb strings.Builder
	for _, ch := range s {
		if ch >= 'a' && ch <= 'z' || ch >= 'A' && ch <= 'Z' || ch >= '0' && ch <= '9' || ch == '_' {
			sb.WriteRune(ch)
		} else {
			sb.WriteByte('_')
		}
	}
	return sb.String()
}

func (st *State) addPC(t *Term) {
	if t.IsTrue() {
		return
	}
	st.pc = append(st.pc, t)
	// remember the truth value of the asserted condition (and of its conjuncts): the same hash-consed condition is
	// often branched on again later on the path (repeated key comparisons) and is then decided without a query
	st.noteKnown(t, true)
}

func (st *State) noteKnown(t *Term, val bool) {
	if st.known == nil {
		st.known = map[*Term]bool{}
	}
	st.known[t] = val
	switch {
	case t.Op == OpBNot:
		st.noteKnown(t.A[0], !val)
	case t.Op == OpBAnd && val:
		st.noteKnown(t.A[0], true)
		st.noteKnown(t.A[1], true)
	case t.Op == OpBOr && !val:
		st.noteKnown(t.A[0], false)
		st.noteKnown(t.A[1], false)
	}
}

func (st *State) syncSolver() {
	if st.s.owner != st {
		// another state used this worker's solver since: start from an empty assertion stack
		st.s.ResetToBase()
		st.s.Push()
		st.synced = 0
		st.s.owner = st
	}
	for ; st.synced < len(st.pc); st.synced++ {
		st.s.Assert(st.pc[st.synced])
	}
}

// query checks satisfiability of pc ∧ extra, returning a model when sat.
func (st *State) query(extra *Term) (SatResult, Model) {
	st.syncSolver()
	st.s.Push()
	st.s.Assert(extra)
	r := st.s.Check()
	var m Model
	if r == Sat {
		m = st.s.GetModel(st.vars)
	}
	st.s.Pop()
	return r, m
}

func (st *State) currentModel() Model {
	if st.model != nil {
		return st.model
	}
	r, m := st.query(st.c.True)
	if r == Sat {
		st.model = m
		return m
	}
	return Model{}
}

var paranoid = os.Getenv("VERIF_PARANOID") != ""

func (st *State) evalModel(t *Term) (uint64, bool) {
	if st.model == nil {
		return 0, false
	}
	if paranoid {
		for i, p := range st.pc {
			if v, ok := st.c.Eval(p, st.model, map[*Term]uint64{}); ok && v == 0 {
				fmt.Fprintf(os.Stderr, "PARANOID: model violates pc[%d] = %s\n model=%v\n%s\n", i, st.c.Print(p), st.model, st.stackString())
				panic("stale model")
			}
		}
	}
	return st.c.Eval(t, st.model, map[*Term]uint64{})
}

// branch decides a symbolic condition, forking when both outcomes are feasible.
func (st *State) branch(cond *Term) bool {
	if cond.IsConst() {
		return cond.C == 1
	}
	if v, ok := st.known[cond]; ok {
		// already implied syntactically by the path condition: no decision, no query (deterministic on replay)
		st.knownHits++
		return v
	}
	if st.pos < len(st.prefix) {
		d := st.prefix[st.pos]
		st.pos++
		st.trace = append(st.trace, d)
		st.model = nil // a model obtained earlier need not satisfy the replayed condition
		if d.C == 0 {
			st.addPC(cond)
			return true
		}
		st.addPC(st.c.BNot(cond))
		return false
	}
	ncond := st.c.BNot(cond)
	var tOK, fOK bool
	var tM, fM Model
	if v, ok := st.evalModel(cond); ok {
		if v == 1 {
			tOK, tM = true, st.model
			r, m := st.query(ncond)
			fOK, fM = r != Unsat, m
			if r == Unknown {
				st.assertsU++
			}
		} else {
			fOK, fM = true, st.model
			r, m := st.query(cond)
			tOK, tM = r != Unsat, m
			if r == Unknown {
				st.assertsU++
			}
		}
	} else {
		r, m := st.query(cond)
		tOK, tM = r != Unsat, m
		if r == Unknown {
			st.assertsU++
		}
		if !tOK {
			fOK = true // pc is satisfiable, so the other side must be
		} else {
			r, m = st.query(ncond)
			fOK, fM = r != Unsat, m
			if r == Unknown {
				st.assertsU++
			}
		}
	}
	switch {
	case tOK && fOK:
		st.fork(Dec{C: 1})
		st.trace = append(st.trace, Dec{C: 0})
		st.addPC(cond)
		st.model = tM
		return true
	case tOK:
		st.trace = append(st.trace, Dec{C: 0})
		st.addPC(cond)
		st.model = tM
		return true
	case fOK:
		st.trace = append(st.trace, Dec{C: 1})
		st.addPC(ncond)
		st.model = fM
		return false
	}
	st.abort(abInfeasible, "both branch sides infeasible")
	return false
}

// choose makes a free n-way choice (no solver involved).
func (st *State) choose(n int) int {
	if n <= 1 {
		return 0
	}
	if st.pos < len(st.prefix) {
		d := st.prefix[st.pos]
		st.pos++
		st.trace = append(st.trace, d)
		return int(d.C)
	}
	for i := n - 1; i >= 1; i-- {
		st.fork(Dec{C: int32(i)})
	}
	st.trace = append(st.trace, Dec{C: 0})
	return 0
}

// concretize forks over the possible values of t.
func (st *State) concretize(t *Term, what string) uint64 {
	if t.IsConst() {
		return t.C
	}
	for iter := 0; ; iter++ {
		if iter > 64 {
			st.abort(abBound, "concretisation of "+what+" has more than 64 values")
		}
		if st.pos < len(st.prefix) {
			d := st.prefix[st.pos]
			st.pos++
			st.trace = append(st.trace, d)
			eq := st.c.Eq(t, st.c.Const(t.W, d.V))
			st.model = nil
			if d.C == 0 {
				st.addPC(eq)
				return d.V
			}
			st.addPC(st.c.BNot(eq))
			continue
		}
		var val uint64
		if v, ok := st.evalModel(t); ok {
			val = v
		} else {
			r, m := st.query(st.c.True)
			if r != Sat {
				st.abort(abInfeasible, "concretize: pc not sat")
			}
			st.model = m
			val, _ = st.c.Eval(t, m, map[*Term]uint64{})
		}
		eq := st.c.Eq(t, st.c.Const(t.W, val))
		r, _ := st.query(st.c.BNot(eq))
		if r != Unsat {
			st.fork(Dec{C: 1, V: val})
		}
		st.trace = append(st.trace, Dec{C: 0, V: val})
		st.addPC(eq)
		return val
	}
}

// ---- ints / floats helpers

func f32bits(f float32) uint32 { return math.Float32bits(f) }
func f64bits(f float64) uint64 { return math.Float64bits(f) }
func floatFromBits(b uint64, size int) FloatV {
	if size == 4 {
		return FloatV(math.Float32frombits(uint32(b)))
	}
	return FloatV(math.Float64frombits(b))
}

func isSigned(T types.Type) bool {
	if b, ok := T.Underlying().(*types.Basic); ok {
		return b.Info()&types.IsUnsigned == 0 && b.Info()&types.IsInteger != 0
	}
	return false
}

func isIntegerLike(T types.Type) bool {
	switch u := T.Underlying().(type) {
	case *types.Basic:
		return u.Info()&types.IsInteger != 0 || u.Kind() == types.UnsafePointer
	case *types.Pointer:
		return true
	}
	return false
}

func (st *State) sortedInputs(m map[string]uint64) []string {
	ks := make([]string, 0, len(m))
	for k := range m {
		ks = append(ks, k)
	}
	sort.Strings(ks)
	return ks
}
