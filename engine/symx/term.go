package symx

import (
	"fmt"
	"sort"
	"strconv"
	"strings"
)

// Terms: hash-consed bit-vector (width 1..64) and boolean (width 0) terms.

type Op uint8

const (
	OpConst Op = iota // bit-vector constant (C), or boolean constant when W==0 (C = 0/1)
	OpVar             // S = name
	OpNot             // bvnot
	OpNeg
	OpAnd
	OpOr
	OpXor
	OpAdd
	OpSub
	OpMul
	OpUDiv
	OpURem
	OpSDiv
	OpSRem
	OpShl
	OpLShr
	OpAShr
	OpConcat  // A[0] high, A[1] low
	OpExtract // C = hi<<8 | lo
	OpZExt
	OpSExt
	OpIte // A[0] bool, A[1], A[2]  (W==0 for boolean ite)
	OpEq  // bool
	OpUlt
	OpUle
	OpSlt
	OpSle
	OpBNot // boolean not
	OpBAnd
	OpBOr
	OpUF // uninterpreted function S applied to A; result width W
)

var opNames = map[Op]string{
	OpNot: "bvnot", OpNeg: "bvneg", OpAnd: "bvand", OpOr: "bvor", OpXor: "bvxor", OpAdd: "bvadd", OpSub: "bvsub",
	OpMul: "bvmul", OpUDiv: "bvudiv", OpURem: "bvurem", OpSDiv: "bvsdiv", OpSRem: "bvsrem", OpShl: "bvshl",
	OpLShr: "bvlshr", OpAShr: "bvashr", OpConcat: "concat", OpIte: "ite", OpEq: "=", OpUlt: "bvult", OpUle: "bvule",
	OpSlt: "bvslt", OpSle: "bvsle", OpBNot: "not", OpBAnd: "and", OpBOr: "or",
}

type Term struct {
	Op Op
	W  int // 0 = Bool
	A  []*Term
	C  uint64
	S  string
	id uint32
}

type TermCtx struct {
	tab    map[string]*Term
	tab2   map[tkey]*Term
	consts map[ckey]*Term
	c8     [256]*Term
	nextID uint32
	True   *Term
	False  *Term
	ufs    map[string]string // UF name -> declaration
}

func NewTermCtx() *TermCtx {
	c := &TermCtx{tab: map[string]*Term{}, tab2: map[tkey]*Term{}, consts: map[ckey]*Term{}, ufs: map[string]string{}}
	c.True = c.mk(OpConst, 0, 1, "", nil)
	c.False = c.mk(OpConst, 0, 0, "", nil)
	return c
}

type tkey struct {
	op         Op
	w          int16
	n          int8
	c          uint64
	s          string
	a0, a1, a2 uint32
}

func (c *TermCtx) mk(op Op, w int, cv uint64, s string, a []*Term) *Term {
	if len(a) > 3 {
		return c.mkN(op, w, cv, s, a)
	}
	k := tkey{op: op, w: int16(w), c: cv, s: s, n: int8(len(a))}
	switch len(a) {
	case 3:
		k.a2 = a[2].id
		fallthrough
	case 2:
		k.a1 = a[1].id
		fallthrough
	case 1:
		k.a0 = a[0].id
	}
	if t, ok := c.tab2[k]; ok {
		return t
	}
	c.nextID++
	t := &Term{Op: op, W: w, A: a, C: cv, S: s, id: c.nextID}
	c.tab2[k] = t
	return t
}

func (c *TermCtx) mkN(op Op, w int, cv uint64, s string, a []*Term) *Term {
	var sb strings.Builder
	sb.WriteByte(byte(op))
	sb.WriteByte(byte(w))
	sb.WriteString(strconv.FormatUint(cv, 36))
	sb.WriteByte('|')
	sb.WriteString(s)
	for _, x := range a {
		sb.WriteByte(',')
		sb.WriteString(strconv.FormatUint(uint64(x.id), 36))
	}
	k := sb.String()
	if t, ok := c.tab[k]; ok {
		return t
	}
	c.nextID++
	t := &Term{Op: op, W: w, A: a, C: cv, S: s, id: c.nextID}
	c.tab[k] = t
	return t
}

func mask(w int) uint64 {
	if w >= 64 {
		return ^uint64(0)
	}
	return (uint64(1) << uint(w)) - 1
}

func sext(v uint64, w int) int64 {
	if w >= 64 {
		return int64(v)
	}
	sh := uint(64 - w)
	return int64(v<<sh) >> sh
}

func (t *Term) IsConst() bool { return t.Op == OpConst }
func (t *Term) IsBool() bool  { return t.W == 0 }
func (t *Term) IsTrue() bool  { return t.Op == OpConst && t.W == 0 && t.C == 1 }
func (t *Term) IsFalse() bool { return t.Op == OpConst && t.W == 0 && t.C == 0 }

func (c *TermCtx) Const(w int, v uint64) *Term {
	if w == 0 {
		panic("Const width 0")
	}
	v &= mask(w)
	if w == 8 {
		if t := c.c8[v]; t != nil {
			return t
		}
		t := c.mk(OpConst, w, v, "", nil)
		c.c8[v] = t
		return t
	}
	k := ckey{w, v}
	if t, ok := c.consts[k]; ok {
		return t
	}
	t := c.mk(OpConst, w, v, "", nil)
	c.consts[k] = t
	return t
}

type ckey struct {
	w int
	v uint64
}
func (c *TermCtx) Bool(b bool) *Term {
	if b {
		return c.True
	}
	return c.False
}
func (c *TermCtx) Var(name string, w int) *Term { return c.mk(OpVar, w, 0, name, nil) }

func (c *TermCtx) UF(name string, w int, args []*Term) *Term {
	if _, ok := c.ufs[name]; !ok {
		var sb strings.Builder
		sb.WriteString("(declare-fun " + name + " (")
		for _, a := range args {
			sb.WriteString(sortOf(a.W) + " ")
		}
		sb.WriteString(") " + sortOf(w) + ")")
		c.ufs[name] = sb.String()
	}
	return c.mk(OpUF, w, 0, name, args)
}

func sortOf(w int) string {
	if w == 0 {
		return "Bool"
	}
	return "(_ BitVec " + strconv.Itoa(w) + ")"
}

// ---- boolean connectives

func (c *TermCtx) BNot(a *Term) *Term {
	if a.W != 0 {
		panic("BNot on bv")
	}
	if a.IsConst() {
		return c.Bool(a.C == 0)
	}
	if a.Op == OpBNot {
		return a.A[0]
	}
	return c.mk(OpBNot, 0, 0, "", []*Term{a})
}

func (c *TermCtx) BAnd(a, b *Term) *Term {
	if a.IsFalse() || b.IsFalse() {
		return c.False
	}
	if a.IsTrue() {
		return b
	}
	if b.IsTrue() {
		return a
	}
	if a == b {
		return a
	}
	if c.BNot(a) == b {
		return c.False
	}
	if a.id > b.id {
		a, b = b, a
	}
	return c.mk(OpBAnd, 0, 0, "", []*Term{a, b})
}

func (c *TermCtx) BOr(a, b *Term) *Term {
	if a.IsTrue() || b.IsTrue() {
		return c.True
	}
	if a.IsFalse() {
		return b
	}
	if b.IsFalse() {
		return a
	}
	if a == b {
		return a
	}
	if c.BNot(a) == b {
		return c.True
	}
	if a.id > b.id {
		a, b = b, a
	}
	return c.mk(OpBOr, 0, 0, "", []*Term{a, b})
}

func (c *TermCtx) Ite(cond, a, b *Term) *Term {
	if cond.W != 0 {
		panic("Ite cond not bool")
	}
	if a.W != b.W {
		panic(fmt.Sprintf("Ite width mismatch %d %d", a.W, b.W))
	}
	if cond.IsTrue() {
		return a
	}
	if cond.IsFalse() {
		return b
	}
	if a == b {
		return a
	}
	if a.W == 0 {
		if a.IsTrue() {
			return c.BOr(cond, b)
		}
		if a.IsFalse() {
			return c.BAnd(c.BNot(cond), b)
		}
		if b.IsTrue() {
			return c.BOr(c.BNot(cond), a)
		}
		if b.IsFalse() {
			return c.BAnd(cond, a)
		}
	}
	if cond.Op == OpBNot {
		return c.Ite(cond.A[0], b, a)
	}
	return c.mk(OpIte, a.W, 0, "", []*Term{cond, a, b})
}

// ---- comparisons

func (c *TermCtx) cmpConst(op Op, w int, x, y uint64) bool {
	switch op {
	case OpEq:
		return x == y
	case OpUlt:
		return x < y
	case OpUle:
		return x <= y
	case OpSlt:
		return sext(x, w) < sext(y, w)
	case OpSle:
		return sext(x, w) <= sext(y, w)
	}
	panic("cmpConst")
}

const iteDistDepth = 6

func (c *TermCtx) Cmp(op Op, a, b *Term) *Term { return c.cmp(op, a, b, iteDistDepth) }

func (c *TermCtx) cmp(op Op, a, b *Term, depth int) *Term {
	if a.W != b.W {
		panic(fmt.Sprintf("cmp width mismatch %d %d (%v)", a.W, b.W, op))
	}
	if a.W == 0 {
		if op != OpEq {
			panic("ordered compare on bool")
		}
		// boolean equality
		if a.IsConst() {
			if a.C == 1 {
				return b
			}
			return c.BNot(b)
		}
		if b.IsConst() {
			if b.C == 1 {
				return a
			}
			return c.BNot(a)
		}
		if a == b {
			return c.True
		}
		if a.id > b.id {
			a, b = b, a
		}
		return c.mk(OpEq, 0, 0, "", []*Term{a, b})
	}
	if a.IsConst() && b.IsConst() {
		return c.Bool(c.cmpConst(op, a.W, a.C, b.C))
	}
	if a == b {
		return c.Bool(op == OpEq || op == OpUle || op == OpSle)
	}
	// distribute over ite with a constant branch when other side is const
	if depth > 0 {
		if b.IsConst() && a.Op == OpIte && (a.A[1].IsConst() || a.A[2].IsConst()) {
			return c.Ite(a.A[0], c.cmp(op, a.A[1], b, depth-1), c.cmp(op, a.A[2], b, depth-1))
		}
		if a.IsConst() && b.Op == OpIte && (b.A[1].IsConst() || b.A[2].IsConst()) {
			return c.Ite(b.A[0], c.cmp(op, a, b.A[1], depth-1), c.cmp(op, a, b.A[2], depth-1))
		}
	}
	// difference of two zero-extended values compared with zero: no wrap-around is possible
	if zc, other := b, a; zc.IsConst() && zc.C == 0 || a.IsConst() && a.C == 0 {
		if a.IsConst() && a.C == 0 {
			other = b
		}
		if other.Op == OpSub {
			x, y := other.A[0], other.A[1]
			if op == OpEq {
				return c.cmp(OpEq, x, y, depth)
			}
			if x.Op == OpZExt && y.Op == OpZExt && x.A[0].W <= x.W-2 && y.A[0].W <= y.W-2 {
				xi, yi := x.A[0], y.A[0]
				iw := xi.W
				if yi.W > iw {
					iw = yi.W
				}
				xi, yi = c.ZExt(xi, iw), c.ZExt(yi, iw)
				zeroOnRight := b.IsConst() && b.C == 0 && other == a
				switch {
				case op == OpSlt && zeroOnRight: // x-y < 0
					return c.cmp(OpUlt, xi, yi, depth)
				case op == OpSle && zeroOnRight: // x-y <= 0
					return c.cmp(OpUle, xi, yi, depth)
				case op == OpSlt && !zeroOnRight: // 0 < x-y
					return c.cmp(OpUlt, yi, xi, depth)
				case op == OpSle && !zeroOnRight: // 0 <= x-y
					return c.cmp(OpUle, yi, xi, depth)
				}
			}
		}
	}
	if op == OpEq {
		// zext(x) == const
		if b.IsConst() && a.Op == OpZExt {
			iw := a.A[0].W
			if b.C&^mask(iw) != 0 {
				return c.False
			}
			return c.cmp(OpEq, a.A[0], c.Const(iw, b.C), depth)
		}
		if a.IsConst() && b.Op == OpZExt {
			return c.cmp(OpEq, b, a, depth)
		}
		if a.Op == OpZExt && b.Op == OpZExt && a.A[0].W == b.A[0].W {
			return c.cmp(OpEq, a.A[0], b.A[0], depth)
		}
		if a.id > b.id {
			a, b = b, a
		}
	}
	if (op == OpUlt || op == OpUle) && a.Op == OpZExt && b.Op == OpZExt && a.A[0].W == b.A[0].W {
		return c.cmp(op, a.A[0], b.A[0], depth)
	}
	if (op == OpUlt || op == OpUle || op == OpSlt || op == OpSle) && a.Op == OpZExt && b.IsConst() && a.A[0].W < a.W {
		// zext value is non-negative and < 2^iw
		iw := a.A[0].W
		bv := b.C
		neg := (op == OpSlt || op == OpSle) && sext(bv, a.W) < 0
		if neg {
			return c.False
		}
		if bv > mask(iw) {
			return c.True
		}
		uop := OpUlt
		if op == OpUle || op == OpSle {
			uop = OpUle
		}
		return c.cmp(uop, a.A[0], c.Const(iw, bv), depth)
	}
	if op == OpUlt && b.IsConst() && b.C == 0 {
		return c.False
	}
	if op == OpUle && a.IsConst() && a.C == 0 {
		return c.True
	}
	return c.mk(op, 0, 0, "", []*Term{a, b})
}

func (c *TermCtx) Eq(a, b *Term) *Term  { return c.Cmp(OpEq, a, b) }
func (c *TermCtx) Ne(a, b *Term) *Term  { return c.BNot(c.Cmp(OpEq, a, b)) }
func (c *TermCtx) Ult(a, b *Term) *Term { return c.Cmp(OpUlt, a, b) }
func (c *TermCtx) Ule(a, b *Term) *Term { return c.Cmp(OpUle, a, b) }
func (c *TermCtx) Slt(a, b *Term) *Term { return c.Cmp(OpSlt, a, b) }
func (c *TermCtx) Sle(a, b *Term) *Term { return c.Cmp(OpSle, a, b) }

// ---- arithmetic

func (c *TermCtx) binConst(op Op, w int, x, y uint64) (uint64, bool) {
	m := mask(w)
	switch op {
	case OpAnd:
		return x & y, true
	case OpOr:
		return x | y, true
	case OpXor:
		return x ^ y, true
	case OpAdd:
		return (x + y) & m, true
	case OpSub:
		return (x - y) & m, true
	case OpMul:
		return (x * y) & m, true
	case OpUDiv:
		if y == 0 {
			return m, true
		}
		return x / y, true
	case OpURem:
		if y == 0 {
			return x, true
		}
		return x % y, true
	case OpSDiv:
		if y == 0 {
			return 0, false
		}
		sx, sy := sext(x, w), sext(y, w)
		if sy == -1 {
			return uint64(-sx) & m, true
		}
		return uint64(sx/sy) & m, true
	case OpSRem:
		if y == 0 {
			return 0, false
		}
		sx, sy := sext(x, w), sext(y, w)
		if sy == -1 {
			return 0, true
		}
		return uint64(sx%sy) & m, true
	case OpShl:
		if y >= uint64(w) {
			return 0, true
		}
		return (x << y) & m, true
	case OpLShr:
		if y >= uint64(w) {
			return 0, true
		}
		return x >> y, true
	case OpAShr:
		sx := sext(x, w)
		if y >= uint64(w) {
			y = uint64(w - 1)
		}
		return uint64(sx>>y) & m, true
	}
	return 0, false
}

func (c *TermCtx) Bin(op Op, a, b *Term) *Term { return c.bin(op, a, b, iteDistDepth) }

func (c *TermCtx) bin(op Op, a, b *Term, depth int) *Term {
	if a.W != b.W || a.W == 0 {
		panic(fmt.Sprintf("bin width mismatch %d %d op %v", a.W, b.W, op))
	}
	w := a.W
	if a.IsConst() && b.IsConst() {
		if v, ok := c.binConst(op, w, a.C, b.C); ok {
			return c.Const(w, v)
		}
	}
	switch op {
	case OpAdd:
		if a.IsConst() && a.C == 0 {
			return b
		}
		if b.IsConst() && b.C == 0 {
			return a
		}
		// (x + c1) + c2
		if b.IsConst() && a.Op == OpAdd && a.A[1].IsConst() {
			return c.bin(OpAdd, a.A[0], c.Const(w, a.A[1].C+b.C), depth)
		}
		if a.IsConst() {
			a, b = b, a
		}
	case OpSub:
		if b.IsConst() && b.C == 0 {
			return a
		}
		if a == b {
			return c.Const(w, 0)
		}
		if b.IsConst() {
			return c.bin(OpAdd, a, c.Const(w, -b.C), depth)
		}
	case OpMul:
		if a.IsConst() {
			a, b = b, a
		}
		if b.IsConst() {
			if b.C == 0 {
				return b
			}
			if b.C == 1 {
				return a
			}
		}
	case OpAnd:
		if a.IsConst() {
			a, b = b, a
		}
		if b.IsConst() {
			if b.C == 0 {
				return b
			}
			if b.C == mask(w) {
				return a
			}
		}
		if a == b {
			return a
		}
	case OpOr:
		if a.IsConst() {
			a, b = b, a
		}
		if b.IsConst() {
			if b.C == 0 {
				return a
			}
			if b.C == mask(w) {
				return b
			}
		}
		if a == b {
			return a
		}
	case OpXor:
		if a.IsConst() {
			a, b = b, a
		}
		if b.IsConst() && b.C == 0 {
			return a
		}
		if a == b {
			return c.Const(w, 0)
		}
	case OpShl, OpLShr, OpAShr:
		if b.IsConst() && b.C == 0 {
			return a
		}
		if b.IsConst() && b.C%8 == 0 && b.C < uint64(w) && op != OpAShr {
			// byte-aligned shifts become concat/extract, which fuse with memory bytes
			k := int(b.C)
			if op == OpShl {
				return c.Concat(c.Extract(a, w-k-1, 0), c.Const(k, 0))
			}
			return c.Concat(c.Const(k, 0), c.Extract(a, w-1, k))
		}
		if b.IsConst() && b.C >= uint64(w) && op != OpAShr {
			return c.Const(w, 0)
		}
	}
	if depth > 0 {
		if b.IsConst() && a.Op == OpIte && (a.A[1].IsConst() || a.A[2].IsConst()) {
			return c.Ite(a.A[0], c.bin(op, a.A[1], b, depth-1), c.bin(op, a.A[2], b, depth-1))
		}
		if a.IsConst() && b.Op == OpIte && (b.A[1].IsConst() || b.A[2].IsConst()) {
			return c.Ite(b.A[0], c.bin(op, a, b.A[1], depth-1), c.bin(op, a, b.A[2], depth-1))
		}
	}
	// and-with-low-mask of zext/concat -> extract
	if op == OpAnd && b.IsConst() {
		for k := 1; k < w; k++ {
			if b.C == mask(k) {
				return c.ZExt(c.Extract(a, k-1, 0), w)
			}
		}
	}
	return c.mk(op, w, 0, "", []*Term{a, b})
}

func (c *TermCtx) Add(a, b *Term) *Term { return c.Bin(OpAdd, a, b) }
func (c *TermCtx) Sub(a, b *Term) *Term { return c.Bin(OpSub, a, b) }

func (c *TermCtx) Not(a *Term) *Term {
	if a.IsConst() {
		return c.Const(a.W, ^a.C)
	}
	if a.Op == OpNot {
		return a.A[0]
	}
	return c.mk(OpNot, a.W, 0, "", []*Term{a})
}

func (c *TermCtx) Neg(a *Term) *Term {
	if a.IsConst() {
		return c.Const(a.W, -a.C)
	}
	return c.mk(OpNeg, a.W, 0, "", []*Term{a})
}

func (c *TermCtx) Extract(a *Term, hi, lo int) *Term {
	if hi < lo || hi >= a.W || lo < 0 {
		panic(fmt.Sprintf("bad extract %d %d of width %d", hi, lo, a.W))
	}
	w := hi - lo + 1
	if w == a.W {
		return a
	}
	switch a.Op {
	case OpConst:
		return c.Const(w, a.C>>uint(lo))
	case OpExtract:
		l0 := int(a.C & 0xff)
		return c.Extract(a.A[0], hi+l0, lo+l0)
	case OpConcat:
		lw := a.A[1].W
		if hi < lw {
			return c.Extract(a.A[1], hi, lo)
		}
		if lo >= lw {
			return c.Extract(a.A[0], hi-lw, lo-lw)
		}
		return c.Concat(c.Extract(a.A[0], hi-lw, 0), c.Extract(a.A[1], lw-1, lo))
	case OpZExt:
		iw := a.A[0].W
		if hi < iw {
			return c.Extract(a.A[0], hi, lo)
		}
		if lo >= iw {
			return c.Const(w, 0)
		}
		return c.ZExt(c.Extract(a.A[0], iw-1, lo), w)
	case OpSExt:
		iw := a.A[0].W
		if hi < iw {
			return c.Extract(a.A[0], hi, lo)
		}
	case OpIte:
		if a.A[1].IsConst() || a.A[2].IsConst() {
			return c.Ite(a.A[0], c.Extract(a.A[1], hi, lo), c.Extract(a.A[2], hi, lo))
		}
	case OpAnd, OpOr, OpXor:
		if a.A[1].IsConst() {
			return c.Bin(a.Op, c.Extract(a.A[0], hi, lo), c.Extract(a.A[1], hi, lo))
		}
	}
	return c.mk(OpExtract, w, uint64(hi)<<8|uint64(lo), "", []*Term{a})
}

func (c *TermCtx) Concat(hi, lo *Term) *Term {
	w := hi.W + lo.W
	if w > 64 {
		panic("concat wider than 64")
	}
	if hi.IsConst() && lo.IsConst() {
		return c.Const(w, hi.C<<uint(lo.W)|lo.C)
	}
	if hi.IsConst() && hi.C == 0 {
		return c.ZExt(lo, w)
	}
	if hi.Op == OpExtract && lo.Op == OpExtract && hi.A[0] == lo.A[0] {
		hl := int(hi.C & 0xff)
		lh := int(lo.C >> 8)
		if hl == lh+1 {
			return c.Extract(hi.A[0], int(hi.C>>8), int(lo.C&0xff))
		}
	}
	// extract(t, k..) ++ t[k-1:0] where lo is full low part of t
	if hi.Op == OpExtract && hi.A[0] == lo && int(hi.C&0xff) == lo.W {
		return c.Extract(lo, int(hi.C>>8), 0)
	}
	// concat(x, concat(y,z)) keep right-nested; concat(concat(a,b),c) with b,c adjacent extracts
	if hi.Op == OpConcat {
		return c.Concat(hi.A[0], c.Concat(hi.A[1], lo))
	}
	if lo.Op == OpConcat && hi.Op == OpExtract && lo.A[0].Op == OpExtract && hi.A[0] == lo.A[0].A[0] {
		hl := int(hi.C & 0xff)
		lh := int(lo.A[0].C >> 8)
		if hl == lh+1 {
			return c.Concat(c.Extract(hi.A[0], int(hi.C>>8), int(lo.A[0].C&0xff)), lo.A[1])
		}
	}
	if lo.Op == OpConcat && hi.IsConst() && lo.A[0].IsConst() {
		return c.Concat(c.Const(hi.W+lo.A[0].W, hi.C<<uint(lo.A[0].W)|lo.A[0].C), lo.A[1])
	}
	if lo.Op == OpZExt && hi.IsConst() && hi.C == 0 {
		return c.ZExt(lo.A[0], w)
	}
	return c.mk(OpConcat, w, 0, "", []*Term{hi, lo})
}

func (c *TermCtx) ZExt(a *Term, w int) *Term {
	if w == a.W {
		return a
	}
	if w < a.W {
		return c.Extract(a, w-1, 0)
	}
	if a.IsConst() {
		return c.Const(w, a.C)
	}
	if a.Op == OpZExt {
		return c.ZExt(a.A[0], w)
	}
	if a.Op == OpIte && (a.A[1].IsConst() || a.A[2].IsConst()) {
		return c.Ite(a.A[0], c.ZExt(a.A[1], w), c.ZExt(a.A[2], w))
	}
	return c.mk(OpZExt, w, 0, "", []*Term{a})
}

func (c *TermCtx) SExt(a *Term, w int) *Term {
	if w == a.W {
		return a
	}
	if w < a.W {
		return c.Extract(a, w-1, 0)
	}
	if a.IsConst() {
		return c.Const(w, uint64(sext(a.C, a.W)))
	}
	if a.Op == OpZExt && a.A[0].W < a.W {
		return c.ZExt(a.A[0], w)
	}
	if a.Op == OpIte && (a.A[1].IsConst() || a.A[2].IsConst()) {
		return c.Ite(a.A[0], c.SExt(a.A[1], w), c.SExt(a.A[2], w))
	}
	return c.mk(OpSExt, w, 0, "", []*Term{a})
}

// BoolToBV converts a boolean to an n-bit 0/1.
func (c *TermCtx) BoolToBV(b *Term, w int) *Term {
	return c.Ite(b, c.Const(w, 1), c.Const(w, 0))
}

// ---- evaluation under a model

type Model map[string]uint64

// Eval returns the value of t under m; ok=false if t contains UFs or unassigned vars are treated as 0.
func (c *TermCtx) Eval(t *Term, m Model, memo map[*Term]uint64) (uint64, bool) {
	if v, ok := memo[t]; ok {
		return v, true
	}
	var r uint64
	switch t.Op {
	case OpConst:
		return t.C, true
	case OpVar:
		r = m[t.S] & mask64(t.W)
	case OpUF:
		return 0, false
	default:
		var av [3]uint64
		for i, a := range t.A {
			v, ok := c.Eval(a, m, memo)
			if !ok {
				return 0, false
			}
			av[i] = v
		}
		switch t.Op {
		case OpNot:
			r = ^av[0] & mask(t.W)
		case OpNeg:
			r = -av[0] & mask(t.W)
		case OpConcat:
			r = av[0]<<uint(t.A[1].W) | av[1]
		case OpExtract:
			r = (av[0] >> uint(t.C&0xff)) & mask(t.W)
		case OpZExt:
			r = av[0]
		case OpSExt:
			r = uint64(sext(av[0], t.A[0].W)) & mask(t.W)
		case OpIte:
			if av[0] != 0 {
				r = av[1]
			} else {
				r = av[2]
			}
		case OpEq, OpUlt, OpUle, OpSlt, OpSle:
			if t.A[0].W == 0 {
				r = b2u(av[0] == av[1])
			} else {
				r = b2u(c.cmpConst(t.Op, t.A[0].W, av[0], av[1]))
			}
		case OpBNot:
			r = 1 - av[0]
		case OpBAnd:
			r = av[0] & av[1]
		case OpBOr:
			r = av[0] | av[1]
		default:
			v, ok := c.binConst(t.Op, t.W, av[0], av[1])
			if !ok {
				return 0, false
			}
			r = v
		}
	}
	if memo != nil {
		memo[t] = r
	}
	return r, true
}

func mask64(w int) uint64 {
	if w == 0 {
		return 1
	}
	return mask(w)
}

func b2u(b bool) uint64 {
	if b {
		return 1
	}
	return 0
}

// ---- printing (SMT-LIB2) with let-sharing

func constStr(w int, v uint64) string {
	if w%4 == 0 {
		return fmt.Sprintf("#x%0*x", w/4, v)
	}
	return fmt.Sprintf("#b%0*b", w, v)
}

// Vars collects the variables of t into set.
func (t *Term) Vars(set map[*Term]bool, seen map[*Term]bool) {
	if seen[t] {
		return
	}
	seen[t] = true
	if t.Op == OpVar {
		set[t] = true
		return
	}
	for _, a := range t.A {
		a.Vars(set, seen)
	}
}

func (c *TermCtx) Print(t *Term) string {
	// count references
	refs := map[*Term]int{}
	var count func(x *Term)
	count = func(x *Term) {
		refs[x]++
		if refs[x] > 1 {
			return
		}
		for _, a := range x.A {
			count(a)
		}
	}
	count(t)
	var shared []*Term
	for x, n := range refs {
		if n > 1 && len(x.A) > 0 {
			shared = append(shared, x)
		}
	}
	sort.Slice(shared, func(i, j int) bool { return shared[i].id < shared[j].id })
	names := map[*Term]string{}
	var sb strings.Builder
	var pr func(x *Term, top bool)
	pr = func(x *Term, top bool) {
		if n, ok := names[x]; ok && !top {
			sb.WriteString(n)
			return
		}
		switch x.Op {
		case OpConst:
			if x.W == 0 {
				if x.C == 1 {
					sb.WriteString("true")
				} else {
					sb.WriteString("false")
				}
			} else {
				sb.WriteString(constStr(x.W, x.C))
			}
		case OpVar:
			sb.WriteString(x.S)
		case OpExtract:
			fmt.Fprintf(&sb, "((_ extract %d %d) ", x.C>>8, x.C&0xff)
			pr(x.A[0], false)
			sb.WriteByte(')')
		case OpZExt:
			fmt.Fprintf(&sb, "((_ zero_extend %d) ", x.W-x.A[0].W)
			pr(x.A[0], false)
			sb.WriteByte(')')
		case OpSExt:
			fmt.Fprintf(&sb, "((_ sign_extend %d) ", x.W-x.A[0].W)
			pr(x.A[0], false)
			sb.WriteByte(')')
		case OpUF:
			if len(x.A) == 0 {
				sb.WriteString(x.S)
				return
			}
			sb.WriteString("(" + x.S)
			for _, a := range x.A {
				sb.WriteByte(' ')
				pr(a, false)
			}
			sb.WriteByte(')')
		default:
			sb.WriteString("(" + opNames[x.Op])
			for _, a := range x.A {
				sb.WriteByte(' ')
				pr(a, false)
			}
			sb.WriteByte(')')
		}
	}
	// shared nodes sorted by id are in topological order (children created first)
	for i, x := range shared {
		n := "?s" + strconv.Itoa(i)
		sb.WriteString("(let ((" + n + " ")
		pr(x, true)
		sb.WriteString(")) ")
		names[x] = n
	}
	pr(t, false)
	for range shared {
		sb.WriteByte(')')
	}
	return sb.String()
}

func (t *Term) String() string {
	c := &TermCtx{}
	s := c.Print(t)
	if len(s) > 300 {
		return s[:300] + "..."
	}
	return s
}
