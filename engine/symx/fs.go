package symx

import (
	"encoding/json"
	"fmt"
	"go/types"
	"sort"
	"strings"

	"golang.org/x/tools/go/ssa"
)

// FS is the in-memory file system behind the os / io/ioutil stubs, with a fault oracle:
//   budget  - total bytes that may be written; the write that would exceed it is cut short and fails,
//             and every later write fails (disk full)
//   failOp  - the k-th fallible operation (create/open for writing, Write, Close of a written file, WriteFile)
//             fails on its own (EIO): nothing of it reaches the file, every other operation succeeds
//   crashAt - after this many mutations the disk image is frozen (process death): later mutations are dropped
type FS struct {
	files     map[string]*fsFile
	dirs      map[string]bool
	open      map[int]*fsHandle // by object id of the *os.File
	mutations int
	crashAt   int
	frozen    bool
	budget    int
	written   int
	failed    bool
	failOp    int
	ops       int
	blobs     map[uint64]*jsonBlob
	log       []string
}

type fsFile struct {
	data []*Term
}

type fsHandle struct {
	path   string
	pos    int
	write  bool
	closed bool
}

type jsonBlob struct {
	kind  string // "strings", "u32s"
	elems []Value
	bytes []*Term
}

func newFS() *FS {
	return &FS{files: map[string]*fsFile{}, dirs: map[string]bool{}, open: map[int]*fsHandle{}, crashAt: -1, budget: -1, failOp: -1, blobs: map[uint64]*jsonBlob{}}
}

// mutate is called before every mutation of the image; it reports whether the mutation takes effect.
func (fs *FS) mutate(what string) bool {
	if fs.frozen {
		return false
	}
	if fs.crashAt >= 0 && fs.mutations >= fs.crashAt {
		fs.frozen = true
		return false
	}
	fs.mutations++
	fs.log = append(fs.log, what)
	return true
}

func (st *State) fsErr(msg string) IfaceV { return st.opaqueError("fs: " + msg) }

func (st *State) ioEOF() Value {
	pkg := st.p.Pkgs["io"]
	if pkg == nil {
		st.abort(abUnsupported, "package io not loaded")
	}
	g := pkg.Var("EOF")
	return st.loadAt(st.globalObj(g).base(), g.Type().(*types.Pointer).Elem())
}

func (st *State) fileHandle(v Value, what string) *fsHandle {
	p := st.constAddr(tw(v), what)
	if p == 0 {
		st.fail("nil *os.File in " + what)
	}
	id := int(p>>objShift) - 1
	h := st.fs.open[id]
	if h == nil {
		st.fail("invalid *os.File in " + what)
	}
	return h
}

func (st *State) newFile(path string, write bool) *Term {
	o := st.newObj(8, "alloc", "os.File:"+path)
	st.fs.open[o.id] = &fsHandle{path: path, write: write}
	return st.ptrTo(o, 0)
}

// opFails counts one fallible operation and reports whether it is the one chosen to fail.
func (fs *FS) opFails() bool {
	if fs.failOp < 0 {
		return false
	}
	k := fs.ops
	fs.ops++
	return k == fs.failOp
}

// fsWrite appends data to a file honouring budget; returns bytes written and whether it failed.
func (st *State) fsWrite(path string, data []*Term, pos *int) (int, bool) {
	fs := st.fs
	n := len(data)
	fail := false
	if fs.failed {
		return 0, true
	}
	if fs.budget >= 0 && fs.written+n > fs.budget {
		n = fs.budget - fs.written
		fail = true
		fs.failed = true
	}
	if n > 0 || !fail {
		if fs.mutate(fmt.Sprintf("write %s %d", path, n)) {
			f := fs.files[path]
			if f == nil {
				f = &fsFile{}
				fs.files[path] = f
			}
			for len(f.data) < *pos {
				f.data = append(f.data, st.zero8)
			}
			for i := 0; i < n; i++ {
				if *pos+i < len(f.data) {
					f.data[*pos+i] = data[i]
				} else {
					f.data = append(f.data, data[i])
				}
			}
		}
	}
	*pos += n
	fs.written += n
	return n, fail
}

func init() {
	errRes := func(st *State, e Value) Value { return e }
	_ = errRes
	reg("os.MkdirAll", func(st *State, th *Thread, a []Value, _ ssa.Instruction) (Value, bool) {
		p := st.goString(a[0], "MkdirAll path")
		if st.fs.mutate("mkdir " + p) {
			st.fs.dirs[p] = true
		}
		return IfaceV{}, true
	})
	reg("os.OpenFile", func(st *State, th *Thread, a []Value, _ ssa.Instruction) (Value, bool) {
		p := st.goString(a[0], "OpenFile path")
		if st.fs.opFails() {
			return Agg{st.zero64, st.fsErr("EIO open " + p)}, true
		}
		if st.fs.files[p] == nil {
			if st.fs.mutate("create " + p) {
				st.fs.files[p] = &fsFile{}
			}
		}
		return Agg{st.newFile(p, true), IfaceV{}}, true
	})
	reg("os.Open", func(st *State, th *Thread, a []Value, _ ssa.Instruction) (Value, bool) {
		p := st.goString(a[0], "Open path")
		if st.fs.files[p] == nil {
			return Agg{st.zero64, st.fsErr("ENOENT " + p)}, true
		}
		return Agg{st.newFile(p, false), IfaceV{}}, true
	})
	stat := func(st *State, th *Thread, a []Value, _ ssa.Instruction) (Value, bool) {
		p := st.goString(a[0], "Stat path")
		_, isFile := st.fs.files[p]
		if !isFile && !st.fs.dirs[p] {
			return Agg{IfaceV{}, st.notExistErr(p)}, true
		}
		o := st.newObj(1, "const", "FileInfo: "+p)
		o.owner = -1
		ptr := st.ptrTo(o, 0)
		st.errMsgs[ptr.C] = p
		return Agg{IfaceV{T: st.p.opaqueFileInfoType(), V: ptr}, IfaceV{}}, true
	}
	reg("os.Stat", stat)
	reg("os.Lstat", stat)
	reg("(*os.File).Write", func(st *State, th *Thread, a []Value, _ ssa.Instruction) (Value, bool) {
		h := st.fileHandle(a[0], "File.Write")
		if h.closed {
			return Agg{st.zero64, st.fsErr("file already closed")}, true
		}
		if st.fs.opFails() {
			return Agg{st.zero64, st.fsErr("EIO write " + h.path)}, true
		}
		s := a[1].(SliceV)
		data := st.byteTerms(s.Ptr, s.Len, "File.Write data")
		n, fail := st.fsWrite(h.path, data, &h.pos)
		if fail {
			return Agg{st.c.Const(64, uint64(n)), st.fsErr("ENOSPC")}, true
		}
		return Agg{st.c.Const(64, uint64(n)), IfaceV{}}, true
	})
	reg("(*os.File).Read", func(st *State, th *Thread, a []Value, _ ssa.Instruction) (Value, bool) {
		h := st.fileHandle(a[0], "File.Read")
		if h.closed {
			return Agg{st.zero64, st.fsErr("file already closed")}, true
		}
		s := a[1].(SliceV)
		ln := int(st.concretize(s.Len, "Read buffer length"))
		f := st.fs.files[h.path]
		var data []*Term
		if f != nil {
			data = f.data
		}
		if ln == 0 {
			return Agg{st.zero64, IfaceV{}}, true
		}
		if h.pos >= len(data) {
			return Agg{st.zero64, st.ioEOF()}, true
		}
		n := len(data) - h.pos
		if n > ln {
			n = ln
		}
		base := st.constAddr(s.Ptr, "Read buffer")
		o, off := st.resolve(base, n, "File.Read buffer")
		o = st.wobj(o)
		o.ensure()
		for i := 0; i < n; i++ {
			b := data[h.pos+i]
			o.setByte(off+i, b)
		}
		h.pos += n
		return Agg{st.c.Const(64, uint64(n)), IfaceV{}}, true
	})
	reg("(*os.File).Close", func(st *State, th *Thread, a []Value, _ ssa.Instruction) (Value, bool) {
		h := st.fileHandle(a[0], "File.Close")
		if h.closed {
			return st.fsErr("file already closed"), true
		}
		h.closed = true
		if h.write && st.fs.opFails() {
			return st.fsErr("EIO close " + h.path), true
		}
		return IfaceV{}, true
	})
	readFile := func(st *State, th *Thread, a []Value, _ ssa.Instruction) (Value, bool) {
		p := st.goString(a[0], "ReadFile path")
		f := st.fs.files[p]
		if f == nil {
			return Agg{st.zero(types.NewSlice(types.Typ[types.Uint8])), st.notExistErr(p)}, true
		}
		o := st.newObj(len(f.data), "alloc", "ReadFile "+p)
		o.ensure()
		for i, b := range f.data {
			if !(b.IsConst() && b.C == 0) {
				o.setByte(i, b)
			}
		}
		n := st.c.Const(64, uint64(len(f.data)))
		return Agg{SliceV{st.ptrTo(o, 0), n, n}, IfaceV{}}, true
	}
	reg("io/ioutil.ReadFile", readFile)
	reg("os.ReadFile", readFile)
	writeFile := func(st *State, th *Thread, a []Value, _ ssa.Instruction) (Value, bool) {
		p := st.goString(a[0], "WriteFile path")
		s := a[1].(SliceV)
		data := st.byteTerms(s.Ptr, s.Len, "WriteFile data")
		if st.fs.mutate("create " + p) {
			st.fs.files[p] = &fsFile{}
		}
		if st.fs.opFails() {
			return st.fsErr("EIO write " + p), true
		}
		pos := 0
		_, fail := st.fsWrite(p, data, &pos)
		if fail {
			return st.fsErr("ENOSPC"), true
		}
		return IfaceV{}, true
	}
	reg("io/ioutil.WriteFile", writeFile)
	reg("os.WriteFile", writeFile)
	reg("os.IsNotExist", func(st *State, th *Thread, a []Value, _ ssa.Instruction) (Value, bool) {
		e := a[0].(IfaceV)
		if e.T == nil {
			return st.c.False, true
		}
		if t, ok := e.V.(*Term); ok && t.IsConst() {
			return st.c.Bool(strings.Contains(st.errMsgs[t.C], "ENOENT")), true
		}
		return st.c.False, true
	})

	// ---- encoding/json for the three shapes the backup manifest uses
	reg("encoding/json.Marshal", func(st *State, th *Thread, a []Value, _ ssa.Instruction) (Value, bool) {
		iv := a[0].(IfaceV)
		return Agg{st.jsonMarshal(iv), IfaceV{}}, true
	})
	reg("encoding/json.Unmarshal", func(st *State, th *Thread, a []Value, _ ssa.Instruction) (Value, bool) {
		data := a[0].(SliceV)
		target := a[1].(IfaceV)
		return st.jsonUnmarshal(data, target), true
	})

	// ---- harness access to the file system and the fault oracle
	h := harnessIntrinsics
	h["vFSDir"] = func(st *State, th *Thread, a []Value, _ ssa.Instruction) (Value, bool) {
		return st.constString("/vfs"), true
	}
	h["vFSBudget"] = func(st *State, th *Thread, a []Value, _ ssa.Instruction) (Value, bool) {
		st.fs.budget = int(int64(st.concretize(tw(a[0]), "budget")))
		st.fs.written = 0
		st.fs.failed = false
		return nil, true
	}
	h["vFSFailOp"] = func(st *State, th *Thread, a []Value, _ ssa.Instruction) (Value, bool) {
		st.fs.failOp = int(int64(st.concretize(tw(a[0]), "failing operation index")))
		st.fs.ops = 0
		return nil, true
	}
	h["vFSOps"] = func(st *State, th *Thread, a []Value, _ ssa.Instruction) (Value, bool) {
		return st.c.Const(64, uint64(st.fs.ops)), true
	}
	h["vFSCrashAt"] = func(st *State, th *Thread, a []Value, _ ssa.Instruction) (Value, bool) {
		st.fs.crashAt = int(int64(st.concretize(tw(a[0]), "crash index")))
		st.fs.mutations = 0
		st.fs.frozen = false
		return nil, true
	}
	h["vFSHeal"] = func(st *State, th *Thread, a []Value, _ ssa.Instruction) (Value, bool) {
		st.fs.budget, st.fs.failed, st.fs.crashAt, st.fs.frozen, st.fs.failOp = -1, false, -1, false, -1
		for _, hd := range st.fs.open {
			hd.closed = true
		}
		return nil, true
	}
	h["vFSMutations"] = func(st *State, th *Thread, a []Value, _ ssa.Instruction) (Value, bool) {
		return st.c.Const(64, uint64(st.fs.mutations)), true
	}
	h["vFSWritten"] = func(st *State, th *Thread, a []Value, _ ssa.Instruction) (Value, bool) {
		return st.c.Const(64, uint64(st.fs.written)), true
	}
	h["vFSFrozen"] = func(st *State, th *Thread, a []Value, _ ssa.Instruction) (Value, bool) {
		return st.c.Bool(st.fs.frozen), true
	}
	h["vFSNumFiles"] = func(st *State, th *Thread, a []Value, _ ssa.Instruction) (Value, bool) {
		return st.c.Const(64, uint64(len(st.fs.files))), true
	}
	h["vFSFileName"] = func(st *State, th *Thread, a []Value, _ ssa.Instruction) (Value, bool) {
		i := int(st.concretize(tw(a[0]), "file index"))
		names := st.fs.names()
		if i < 0 || i >= len(names) {
			return st.constString(""), true
		}
		return st.constString(names[i]), true
	}
	h["vFSSize"] = func(st *State, th *Thread, a []Value, _ ssa.Instruction) (Value, bool) {
		f := st.fs.files[st.goString(a[0], "path")]
		if f == nil {
			return st.c.Const(64, ^uint64(0)), true
		}
		return st.c.Const(64, uint64(len(f.data))), true
	}
	h["vFSRemove"] = func(st *State, th *Thread, a []Value, _ ssa.Instruction) (Value, bool) {
		delete(st.fs.files, st.goString(a[0], "path"))
		return nil, true
	}
	h["vFSTruncate"] = func(st *State, th *Thread, a []Value, _ ssa.Instruction) (Value, bool) {
		f := st.fs.files[st.goString(a[0], "path")]
		n := int(st.concretize(tw(a[1]), "truncate length"))
		if f != nil && n >= 0 && n < len(f.data) {
			f.data = append([]*Term(nil), f.data[:n]...)
		}
		return nil, true
	}
	h["vFSSetByte"] = func(st *State, th *Thread, a []Value, _ ssa.Instruction) (Value, bool) {
		f := st.fs.files[st.goString(a[0], "path")]
		off := int(st.concretize(tw(a[1]), "byte offset"))
		if f != nil && off >= 0 && off < len(f.data) {
			f.data = append([]*Term(nil), f.data...)
			f.data[off] = tw(a[2])
		}
		return nil, true
	}
	h["vFSGetByte"] = func(st *State, th *Thread, a []Value, _ ssa.Instruction) (Value, bool) {
		f := st.fs.files[st.goString(a[0], "path")]
		off := int(st.concretize(tw(a[1]), "byte offset"))
		if f != nil && off >= 0 && off < len(f.data) {
			return f.data[off], true
		}
		return st.zero8, true
	}
}

func (fs *FS) names() []string {
	var ns []string
	for n := range fs.files {
		ns = append(ns, n)
	}
	sort.Strings(ns)
	return ns
}

func (st *State) notExistErr(p string) IfaceV { return st.fsErr("ENOENT " + p) }

// ---- JSON

func (st *State) sliceElems(s SliceV, ET types.Type, what string) []Value {
	n := int(st.concretize(s.Len, what+" length"))
	out := make([]Value, n)
	if n == 0 {
		return out
	}
	base := st.constAddr(s.Ptr, what)
	es := uint64(sizeof(ET))
	for i := 0; i < n; i++ {
		out[i] = st.loadAt(base+uint64(i)*es, ET)
	}
	return out
}

func (st *State) makeSliceOf(ET types.Type, elems []Value, label string) SliceV {
	es := sizeof(ET)
	o := st.newObj(len(elems)*es, "alloc", label)
	for i, e := range elems {
		st.storeAt(o.base()+uint64(i*es), ET, e)
	}
	n := st.c.Const(64, uint64(len(elems)))
	return SliceV{st.ptrTo(o, 0), n, n}
}

func (st *State) jsonMarshal(iv IfaceV) Value {
	switch T := iv.T.Underlying().(type) {
	case *types.Slice:
		elems := st.sliceElems(iv.V.(SliceV), T.Elem(), "json.Marshal slice")
		eb, _ := T.Elem().Underlying().(*types.Basic)
		if eb != nil && eb.Info()&types.IsString != 0 {
			ss := make([]string, len(elems))
			for i, e := range elems {
				ss[i] = st.goString(e, "json.Marshal string")
			}
			if ss == nil {
				ss = []string{}
			}
			b, _ := json.Marshal(ss)
			return st.newBytes(b, "json")
		}
		if eb != nil && eb.Kind() == types.Uint32 {
			conc := true
			vals := make([]uint32, len(elems))
			for i, e := range elems {
				t := e.(*Term)
				if !t.IsConst() {
					conc = false
					break
				}
				vals[i] = uint32(t.C)
			}
			if conc {
				b, _ := json.Marshal(vals)
				return st.newBytes(b, "json")
			}
			// symbolic checksums: a structured token (kept exact by congruence, not rendered as text)
			id := uint64(len(st.fs.blobs) + 1)
			txt := []byte(fmt.Sprintf("[\"verif-json-blob\",%d]", id))
			s := st.newBytes(txt, "json-blob")
			st.fs.blobs[id] = &jsonBlob{kind: "u32s", elems: elems, bytes: st.byteTerms(s.Ptr, s.Len, "blob")}
			return s
		}
	case *types.Map:
		m := st.mapR(iv.V.(MapRef))
		gm := map[string]interface{}{}
		for i, k := range m.Keys {
			v := m.Vals[i].(IfaceV)
			gm[st.goString(k, "json map key")] = st.goValue(v)
		}
		b, _ := json.Marshal(gm)
		return st.newBytes(b, "json")
	}
	st.abort(abUnsupported, "json.Marshal of "+iv.T.String())
	return nil
}

func (st *State) jsonUnmarshal(data SliceV, target IfaceV) Value {
	pt, ok := target.T.Underlying().(*types.Pointer)
	if !ok {
		return st.fsErr("json: Unmarshal(non-pointer)")
	}
	addr := st.constAddr(tw(target.V), "json.Unmarshal target")
	raw, conc := st.concreteBytes(data.Ptr, data.Len, "json.Unmarshal data")
	if !conc {
		st.abort(abUnsupported, "json.Unmarshal of symbolic bytes")
	}
	// structured token?
	var tok []interface{}
	if json.Unmarshal(raw, &tok) == nil && len(tok) == 2 && tok[0] == "verif-json-blob" {
		id := uint64(tok[1].(float64))
		if bl := st.fs.blobs[id]; bl != nil {
			if sl, ok := pt.Elem().Underlying().(*types.Slice); ok {
				st.storeAt(addr, pt.Elem(), st.makeSliceOf(sl.Elem(), bl.elems, "json slice"))
				return IfaceV{}
			}
		}
	}
	switch T := pt.Elem().Underlying().(type) {
	case *types.Slice:
		eb, _ := T.Elem().Underlying().(*types.Basic)
		if eb != nil && eb.Info()&types.IsString != 0 {
			var ss []string
			err := json.Unmarshal(raw, &ss)
			if ss != nil {
				elems := make([]Value, len(ss))
				for i, s := range ss {
					elems[i] = st.constString(s)
				}
				st.storeAt(addr, pt.Elem(), st.makeSliceOf(T.Elem(), elems, "json []string"))
			}
			if err != nil {
				return st.fsErr("json: " + err.Error())
			}
			return IfaceV{}
		}
		if eb != nil && eb.Kind() == types.Uint32 {
			// json.Unmarshal appends into / reuses the existing slice; model the common case: the result replaces it
			cur := st.loadAt(addr, pt.Elem()).(SliceV)
			curN := int(st.concretize(cur.Len, "json target len"))
			var vs []uint32
			err := json.Unmarshal(raw, &vs)
			if vs != nil {
				elems := make([]Value, len(vs))
				for i, v := range vs {
					elems[i] = st.c.Const(32, uint64(v))
				}
				_ = curN
				st.storeAt(addr, pt.Elem(), st.makeSliceOf(T.Elem(), elems, "json []uint32"))
			}
			if err != nil {
				return st.fsErr("json: " + err.Error())
			}
			return IfaceV{}
		}
	case *types.Map:
		gm := map[string]int{}
		err := json.Unmarshal(raw, &gm)
		m := st.loadAt(addr, pt.Elem()).(MapRef)
		if m == 0 {
			m = st.newMap(T.Key(), T.Elem())
			st.storeAt(addr, pt.Elem(), m)
		}
		ks := make([]string, 0, len(gm))
		for k := range gm {
			ks = append(ks, k)
		}
		sort.Strings(ks)
		for _, k := range ks {
			st.mapUpdate(m, st.constString(k), st.c.Const(64, uint64(gm[k])))
		}
		if err != nil {
			return st.fsErr("json: " + err.Error())
		}
		return IfaceV{}
	}
	st.abort(abUnsupported, "json.Unmarshal into "+target.T.String())
	return nil
}
