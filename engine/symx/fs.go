package symx

// FS is the in-memory file system used by the os/ioutil stubs.
type FS struct {
	files map[string]*fsFile
	dirs  map[string]bool
	ops   int
}

type fsFile struct {
	data []*Term
}

func newFS() *FS { return &FS{files: map[string]*fsFile{}, dirs: map[string]bool{}} }
