package symx

import (
	"fmt"
	"go/types"

	"golang.org/x/tools/go/ssa"
)

// ---- run loop

func (st *State) runnable(th *Thread) bool {
	switch th.status {
	case thReady:
		if th.sleeping {
			return st.runGen != th.sleepGen
		}
		return true
	case thBlocked:
		if th.wake != nil {
			return true
		}
		if th.wkind != waitNone {
			return st.waitSatisfied(th)
		}
	}
	return false
}

func (st *State) activeThreads() int {
	n := 0
	for _, t := range st.threads {
		if t.status != thDone {
			n++
		}
	}
	return n
}

// pickNext selects the thread to run when the current one cannot continue (or at a yield).
// Returns false when the path is over (main finished).
func (st *State) pickNext(kind string) {
	var rs []*Thread
	for _, t := range st.threads {
		if st.runnable(t) {
			rs = append(rs, t)
		}
	}
	if len(rs) == 0 {
		// maybe only sleepers remain: a sleeper whose condition nobody can change is a hang
		for _, t := range st.threads {
			if t.status == thReady && t.sleeping {
				st.cur = t
				st.fail("hang: goroutine " + t.name + " polls with time.Sleep but no other goroutine can make progress")
			}
		}
		st.fail("deadlock: all goroutines are blocked" + st.blockedSummary())
	}
	i := 0
	if !st.p.Cfg.SchedFree && st.cur != nil && st.cur.yielding && len(rs) > 1 && rs[0] == st.cur {
		// an explicit yield hands the processor to another runnable goroutine (the default pick would be the
		// yielding goroutine itself when it has the lowest id)
		i = 1
	}
	if st.p.Cfg.SchedFree && len(rs) > 1 && st.devLeft != 0 {
		i = st.choose(len(rs))
		if i > 0 && st.devLeft > 0 {
			st.devLeft--
		}
	}
	prev := st.cur
	st.cur = rs[i]
	if prev != st.cur {
		st.runGen++
		from := -1
		if prev != nil {
			from = prev.id
		}
		ev := SchedEvent{Thread: from, To: st.cur.id, Kind: kind, ToName: st.cur.label}
		if prev != nil {
			ev.FromName = prev.label
			if prev.yielding {
				// control leaves at an explicit yield of the harness: the native replay hands over at the same call
				ev.Pos, ev.Nth = "yield", prev.yields
			}
		}
		st.sched = append(st.sched, ev)
	}
	if prev != nil {
		prev.yielding = false
	}
	st.cur.sleeping = false
	if st.cur.status == thBlocked {
		st.cur.status = thReady
		st.cur.wkind = waitNone
	}
}

func (st *State) blockedSummary() string {
	s := ""
	for _, t := range st.threads {
		if t.status == thBlocked && t.fr != nil {
			pos := ""
			if t.fr.ip < len(t.fr.block.Instrs) {
				pos = st.p.Fset.Position(t.fr.block.Instrs[t.fr.ip].Pos()).String()
			}
			s += fmt.Sprintf("; goroutine %d (%s) blocked in %s at %s", t.id, t.name, t.fr.fn.String(), pos)
		}
	}
	return s
}

// block marks the current thread blocked; the pending instruction is re-executed when it runs again.
// wait conditions of blocked goroutines are data (not closures) so that states can be cloned
type waitKind int

const (
	waitNone   waitKind = iota // woken explicitly (channel partner, wake info)
	waitMutex                  // until the 4 bytes at addr are zero
	waitWG                     // until the 8 bytes at addr are zero
	waitQuiet                  // until no other goroutine is runnable
)

func (st *State) block(th *Thread, k waitKind, addr uint64) {
	th.status = thBlocked
	th.wkind = k
	th.waddr = addr
}

func (st *State) waitSatisfied(th *Thread) bool {
	switch th.wkind {
	case waitMutex:
		x := st.loadBits(th.waddr, 4)
		return x.IsConst() && x.C == 0
	case waitWG:
		x := st.loadBits(th.waddr, 8)
		return x.IsConst() && x.C == 0
	case waitQuiet:
		for _, t := range st.threads {
			// another goroutine that itself waits for quiescence does not count as activity (and asking whether
			// it is runnable would ask the same question about this one)
			if t != th && !(t.status == thBlocked && t.wkind == waitQuiet) && st.runnable(t) {
				return false
			}
		}
		return true
	}
	return false
}

func (st *State) runLoop() {
	main := st.threads[0]
	for {
		st.stepStart = len(st.trace)
		st.runIter(main)
		st.restart = false
		if main.status == thDone {
			return
		}
	}
}

// runIter is one scheduler iteration: everything in it is re-executable from its beginning, which is what a
// state forked at a decision inside it does.
func (st *State) runIter(main *Thread) {
	for once := true; once; once = false {
		th := st.cur
		if main.status == thDone {
			return
		}
		if th.status != thReady || th.sleeping {
			kind := "block"
			if th.status == thDone {
				kind = "done"
			}
			st.pickNext(kind)
			continue
		}
		if st.concurrent && st.p.Cfg.Preempt >= 0 {
			if st.maybePreempt(th) {
				continue
			}
		}
		st.step(th)
	}
}

// ---- fine-grained preemption

// visibleOp reports whether the next instruction of th touches shared state.
func (st *State) visibleOp(th *Thread) (bool, ssa.Instruction) {
	fr := th.fr
	if fr == nil || fr.ip >= len(fr.block.Instrs) {
		return false, nil
	}
	ins := fr.block.Instrs[fr.ip]
	switch x := ins.(type) {
	case *ssa.Call:
		if f, ok := x.Call.Value.(*ssa.Function); ok && !x.Call.IsInvoke() {
			if visibleIntrinsics[st.p.fnName(f)] {
				return true, ins
			}
		}
	case *ssa.Send, *ssa.Select:
		return true, ins
	case *ssa.UnOp:
		if x.Op.String() == "<-" {
			return true, ins
		}
		if x.Op.String() == "*" {
			if a, ok := st.peek(fr, x.X); ok {
				return st.sharedCell(a, sizeof(x.Type()), false), ins
			}
		}
	case *ssa.Store:
		if a, ok := st.peek(fr, x.Addr); ok {
			return st.sharedCell(a, sizeof(x.Val.Type()), true), ins
		}
	}
	return false, nil
}

func (st *State) peek(fr *Frame, v ssa.Value) (uint64, bool) {
	switch v.(type) {
	case *ssa.Global:
		return st.globalObj(v.(*ssa.Global)).base(), true
	}
	if i, ok := fr.info.idx[v]; ok {
		if t, ok := fr.locals[i].(*Term); ok && t.IsConst() {
			return t.C, true
		}
	}
	return 0, false
}

func (st *State) sharedCell(addr uint64, n int, write bool) bool {
	id := int(addr>>objShift) - 1
	if addr == 0 || id < 0 || id >= len(st.objs) {
		return false
	}
	o := st.objs[id]
	if !(o.shared || o.owner < 0) {
		return false
	}
	if o.kind == "const" {
		return false
	}
	if write {
		return true
	}
	// reads are visible only for cells somebody writes in the concurrent phase (fixpoint set)
	off := int(addr & (objMaxSize - 1))
	return st.p.isWrittenCell(st.cellKey(o, off, n))
}

func (st *State) cellKey(o *Obj, off, n int) string {
	return fmt.Sprintf("%s@%s+%d", o.label, o.site, off)
}

func (st *State) maybePreempt(th *Thread) bool {
	if th.noPreempt {
		th.noPreempt = false
		return false
	}
	vis, ins := st.visibleOp(th)
	if !vis {
		return false
	}
	if st.preemptLeft <= 0 {
		return false
	}
	if st.p.Cfg.PreemptNamed && th.label == "" {
		return false
	}
	var others []*Thread
	for _, t := range st.threads {
		if t != th && st.runnable(t) && !(st.p.Cfg.PreemptNamed && t.label == "" && t.started) {
			others = append(others, t)
		}
	}
	if len(others) == 0 {
		return false
	}
	k := st.choose(1 + len(others))
	if k == 0 {
		return false
	}
	st.preemptLeft--
	pos := st.p.Fset.Position(ins.Pos()).String()
	th.noPreempt = true
	to := others[k-1]
	st.sched = append(st.sched, SchedEvent{Thread: th.id, Pos: pos, Nth: th.ihits[ins] + 1, To: to.id, Kind: "preempt", FromName: th.label, ToName: to.label})
	st.cur = to
	st.runGen++
	to.sleeping = false
	if to.status == thBlocked {
		to.status = thReady
		to.wkind = waitNone
	}
	return true
}

// ---- sharing analysis (dynamic escape)

func (st *State) shareValue(v Value) {
	switch x := v.(type) {
	case *Term:
		if x.IsConst() {
			st.shareAddr(x.C)
		}
	case SliceV:
		if x.Ptr.IsConst() {
			st.shareAddr(x.Ptr.C)
		}
	case Agg:
		for _, e := range x {
			st.shareValue(e)
		}
	case IfaceV:
		st.shareValue(x.V)
	case *Closure:
		if x != nil {
			for _, e := range x.Env {
				st.shareValue(e)
			}
		}
	case *BoundMethod:
		st.shareValue(x.Recv)
	}
}

func (st *State) shareAddr(a uint64) {
	id := int(a>>objShift) - 1
	if a == 0 || a >= handleBase || id < 0 || id >= len(st.objs) {
		if a >= handleBase && a-handleBase < uint64(len(st.handles)) {
			switch h := st.handles[a-handleBase].(type) {
			case *Closure:
				if !st.sharedHandles[h] {
					st.sharedHandles[h] = true
					st.shareValue(h)
				}
			case *box:
				if !st.sharedHandles[h] {
					st.sharedHandles[h] = true
					st.shareValue(h.v)
				}
			}
		}
		return
	}
	o := st.objs[id]
	if o.shared {
		return
	}
	o = st.wobj(o)
	o.shared = true
	// scan for pointers
	for off := 0; off+8 <= o.size; off += 8 {
		st.scanWord(o, off)
	}
}

func (st *State) scanWord(o *Obj, off int) {
	if o.bytes == nil && o.sparse == nil {
		return
	}
	var v uint64
	for i := 7; i >= 0; i-- {
		b := o.getByte(off + i)
		if b == nil {
			v <<= 8
			continue
		}
		if !b.IsConst() {
			return
		}
		v = v<<8 | b.C
	}
	if v != 0 {
		st.shareAddr(v)
	}
}

// publishRange: after a store into a shared object, objects whose addresses were stored become shared.
func (st *State) publishRange(o *Obj, off, n int) {
	if !st.concurrent || !(o.shared || o.owner < 0) {
		return
	}
	lo := off &^ 7
	hi := (off + n + 7) &^ 7
	for w := lo; w+8 <= hi && w+8 <= o.size; w += 8 {
		st.scanWord(o, w)
	}
}

func (st *State) notePublish(addr uint64, ptr *Term) {
	if !st.concurrent {
		return
	}
	id := int(addr>>objShift) - 1
	if id < 0 || id >= len(st.objs) {
		return
	}
	o := st.objs[id]
	if (o.shared || o.owner < 0) && ptr.IsConst() {
		st.shareAddr(ptr.C)
	}
}

func (st *State) noteAccess(o *Obj, off, n int, write bool) {
	if !st.concurrent || !write {
		return
	}
	if o.shared || o.owner < 0 {
		st.p.noteWrittenCell(st.cellKey(o, off, n))
	}
}

// isWrittenCell consults the set frozen at the start of the round, so that visibility (and with it the sequence
// of scheduling decisions) is the same every time a prefix is re-executed within the round.
func (p *Program) isWrittenCell(k string) bool {
	return p.writtenFrozen[k]
}

func (p *Program) noteWrittenCell(k string) {
	p.cellMu.RLock()
	ok := p.written[k]
	p.cellMu.RUnlock()
	if ok {
		return
	}
	p.cellMu.Lock()
	if !p.written[k] {
		p.written[k] = true
		p.writtenGrew = true
	}
	p.cellMu.Unlock()
}

// ---- channels

func (st *State) findWaiter(ch ChanRef, dir types.ChanDir, except *Thread) (*Thread, int) {
	for _, t := range st.threads {
		if t == except || t.status != thBlocked || t.wake != nil {
			continue
		}
		for i, w := range t.waits {
			if w.ch == ch && w.dir == dir {
				return t, i
			}
		}
	}
	return nil, -1
}

// trySend attempts a send without blocking.
func (st *State) trySend(th *Thread, cr ChanRef, v Value) bool {
	if cr == 0 {
		return false
	}
	if st.chanR(cr).closed {
		st.fail("send on closed channel")
	}
	if r, i := st.findWaiter(cr, types.RecvOnly, th); r != nil {
		r.wake = &wakeInfo{idx: r.waits[i].idx, val: v, ok: true}
		r.waits = nil
		return true
	}
	if ch := st.chanR(cr); len(ch.buf) < ch.cap {
		ch = st.chanW(cr)
		ch.buf = append(ch.buf, v)
		return true
	}
	return false
}

// tryRecv attempts a receive without blocking.
func (st *State) tryRecv(th *Thread, cr ChanRef) (Value, bool, bool) {
	if cr == 0 {
		return nil, false, false
	}
	if len(st.chanR(cr).buf) > 0 {
		ch := st.chanW(cr)
		v := ch.buf[0]
		ch.buf = append([]Value(nil), ch.buf[1:]...)
		// a blocked sender can now move its value into the buffer
		if s, i := st.findWaiter(cr, types.SendOnly, th); s != nil {
			ch.buf = append(ch.buf, s.waits[i].val)
			s.wake = &wakeInfo{idx: s.waits[i].idx, ok: true}
			s.waits = nil
		}
		return v, true, true
	}
	if s, i := st.findWaiter(cr, types.SendOnly, th); s != nil {
		v := s.waits[i].val
		s.wake = &wakeInfo{idx: s.waits[i].idx, ok: true}
		s.waits = nil
		return v, true, true
	}
	if ch := st.chanR(cr); ch.closed {
		return st.zero(ch.ET), false, true
	}
	return nil, false, false
}

func (st *State) closeChan(cr ChanRef) {
	if cr == 0 {
		st.fail("close of nil channel")
	}
	if st.chanR(cr).closed {
		st.fail("close of closed channel")
	}
	ch := st.chanW(cr)
	ch.closed = true
	for _, t := range st.threads {
		if t.status != thBlocked || t.wake != nil {
			continue
		}
		for _, w := range t.waits {
			if w.ch == cr {
				if w.dir == types.SendOnly {
					st.fail("send on closed channel")
				}
				t.wake = &wakeInfo{idx: w.idx, val: st.zero(ch.ET), ok: false}
				t.waits = nil
				break
			}
		}
	}
}

func (st *State) send(th *Thread, fr *Frame, x *ssa.Send) bool {
	if th.wake != nil {
		th.wake = nil
		return true
	}
	ch := st.eval(fr, x.Chan).(ChanRef)
	v := st.eval(fr, x.X)
	st.shareValue(v)
	if st.trySend(th, ch, v) {
		return true
	}
	th.waits = []waitCase{{ch: ch, dir: types.SendOnly, val: v}}
	st.block(th, waitNone, 0)
	return false
}

func (st *State) recv(th *Thread, fr *Frame, x *ssa.UnOp) bool {
	set := func(v Value, ok bool) {
		if x.CommaOk {
			fr.set(x, Agg{v, st.c.Bool(ok)})
		} else {
			fr.set(x, v)
		}
	}
	if th.wake != nil {
		w := th.wake
		th.wake = nil
		set(w.val, w.ok)
		return true
	}
	ch := st.eval(fr, x.X).(ChanRef)
	if v, ok, done := st.tryRecv(th, ch); done {
		set(v, ok)
		return true
	}
	th.waits = []waitCase{{ch: ch, dir: types.RecvOnly}}
	st.block(th, waitNone, 0)
	return false
}

func (st *State) doSelect(th *Thread, fr *Frame, x *ssa.Select) bool {
	// result tuple: (index int, recvOk bool, r_0 T_0, ... r_n-1 T_n-1) for recv states
	mk := func(idx int, recvVal Value, ok bool) {
		res := Agg{st.c.Const(64, uint64(idx)), st.c.Bool(ok)}
		for i, s := range x.States {
			if s.Dir == types.RecvOnly {
				if i == idx && recvVal != nil {
					res = append(res, recvVal)
				} else {
					res = append(res, st.zero(s.Chan.Type().Underlying().(*types.Chan).Elem()))
				}
			}
		}
		fr.set(x, res)
	}
	if th.wake != nil {
		w := th.wake
		th.wake = nil
		mk(w.idx, w.val, w.ok)
		return true
	}
	var rs []int
	chans := make([]ChanRef, len(x.States))
	vals := make([]Value, len(x.States))
	for i, s := range x.States {
		chans[i] = st.eval(fr, s.Chan).(ChanRef)
		if s.Dir == types.SendOnly {
			vals[i] = st.eval(fr, s.Send)
		}
		if chans[i] == 0 {
			continue
		}
		ch := st.chanR(chans[i])
		if s.Dir == types.SendOnly {
			if ch.closed {
				rs = append(rs, i)
			} else if r, _ := st.findWaiter(chans[i], types.RecvOnly, th); r != nil || len(ch.buf) < ch.cap {
				rs = append(rs, i)
			}
		} else {
			if len(ch.buf) > 0 || ch.closed {
				rs = append(rs, i)
			} else if s2, _ := st.findWaiter(chans[i], types.SendOnly, th); s2 != nil {
				rs = append(rs, i)
			}
		}
	}
	if len(rs) > 0 {
		k := 0
		if len(rs) > 1 {
			k = st.choose(len(rs))
		}
		i := rs[k]
		if x.States[i].Dir == types.SendOnly {
			st.shareValue(vals[i])
			if !st.trySend(th, chans[i], vals[i]) {
				panic("select: ready send failed")
			}
			mk(i, nil, false)
		} else {
			v, ok, done := st.tryRecv(th, chans[i])
			if !done {
				panic("select: ready recv failed")
			}
			mk(i, v, ok)
		}
		return true
	}
	if !x.Blocking {
		mk(-1, nil, false)
		return true
	}
	th.waits = nil
	for i, s := range x.States {
		if chans[i] != 0 {
			th.waits = append(th.waits, waitCase{ch: chans[i], dir: s.Dir, val: vals[i], idx: i})
		}
	}
	st.block(th, waitNone, 0)
	return false
}
