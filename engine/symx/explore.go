package symx

import (
	"fmt"
	"go/types"
	"hash/crc32"
	"os"
	"path/filepath"
	"sort"
	"strings"
	"sync"
	"sync/atomic"
	"time"

	"golang.org/x/tools/go/packages"
	"golang.org/x/tools/go/ssa"
	"golang.org/x/tools/go/ssa/ssautil"
)

var noClone = os.Getenv("VERIF_NOCLONE") != ""

var progress = os.Getenv("VERIF_PROGRESS") != ""

const ModulePath = "github.com/couchbase/nitro"

func crc32IEEE(b []byte) uint32 { return crc32.ChecksumIEEE(b) }

// Load builds SSA for the packages of repoDir with harness files overlaid.
// overlay maps a virtual path inside repoDir to the real harness file.
func Load(repoDir string, patterns []string, overlay map[string]string, cfg *Config) (*Program, error) {
	ov := map[string][]byte{}
	for virt, real := range overlay {
		b, err := os.ReadFile(real)
		if err != nil {
			return nil, err
		}
		ov[virt] = b
	}
	pcfg := &packages.Config{
		Mode:    packages.LoadAllSyntax,
		Dir:     repoDir,
		Overlay: ov,
		Env:     append(os.Environ(), "GOFLAGS=-mod=mod", "GOPROXY=off", "GOSUMDB=off", "GOTOOLCHAIN=local", "CGO_ENABLED=1"),
	}
	pkgs, err := packages.Load(pcfg, patterns...)
	if err != nil {
		return nil, err
	}
	var errs []string
	packages.Visit(pkgs, nil, func(p *packages.Package) {
		for _, e := range p.Errors {
			errs = append(errs, e.Error())
		}
	})
	if len(errs) > 0 {
		return nil, fmt.Errorf("package errors:\n%s", strings.Join(errs, "\n"))
	}
	prog, spkgs := ssautil.AllPackages(pkgs, ssa.InstantiateGenerics)
	prog.Build()
	p := &Program{Prog: prog, Fset: prog.Fset, Pkgs: map[string]*ssa.Package{}, offCache: map[*types.Struct][]int64{},
		Cfg: cfg, fnNames: map[*ssa.Function]string{}, executed: map[string]int{}, stubs: map[string]int{}, written: map[string]bool{}}
	_ = spkgs
	for _, sp := range prog.AllPackages() {
		p.Pkgs[sp.Pkg.Path()] = sp
	}
	// targets: every package of the module under test, dependencies first
	seen := map[*types.Package]bool{}
	var visit func(tp *types.Package)
	visit = func(tp *types.Package) {
		if seen[tp] || !strings.HasPrefix(tp.Path(), ModulePath) || strings.HasSuffix(tp.Path(), "/mm") {
			return
		}
		seen[tp] = true
		for _, im := range tp.Imports() {
			visit(im)
		}
		if sp := p.Pkgs[tp.Path()]; sp != nil {
			p.Targets = append(p.Targets, sp)
		}
	}
	for _, lp := range pkgs {
		visit(lp.Types)
	}
	p.registerHarness()
	return p, nil
}

// ---- exploration

type Result struct {
	Paths        int
	Completed    int
	Infeasible   int
	Violations   []*Violation
	Unsupported  map[string]int
	BoundHits    map[string]int
	Asserts      int
	Inconclusive int
	Reached      map[string]int
	Solver       SolverStats
	Instrs       int
	Funcs        map[string]int
	Stubs        map[string]int
	Wall         time.Duration
	Truncated    bool
	Samples      []string
	Witnesses    []*Violation // a few completed (passing) paths, replayable natively
	BoundPaths   []*Violation // paths cut by a budget (candidates for non-termination)
	Rounds       int
	MaxTraceLen  int
	Allocs       int
}

func (r *Result) Clean() bool {
	return len(r.Unsupported) == 0 && len(r.BoundHits) == 0 && r.Inconclusive == 0 && !r.Truncated && r.Solver.Unknown == 0 && r.Solver.Errors == 0
}

type workQueue struct {
	mu      sync.Mutex
	cond    *sync.Cond
	items   [][]Dec
	active  int
	stopped bool
	n       int64
}

func (q *workQueue) push(t []Dec) {
	q.mu.Lock()
	q.items = append(q.items, t)
	atomic.StoreInt64(&q.n, int64(len(q.items)))
	q.mu.Unlock()
	q.cond.Signal()
}

func (q *workQueue) length() int { return int(atomic.LoadInt64(&q.n)) }

func (q *workQueue) pop() ([]Dec, bool) {
	q.mu.Lock()
	defer q.mu.Unlock()
	for {
		if q.stopped {
			return nil, false
		}
		if n := len(q.items); n > 0 {
			t := q.items[n-1] // LIFO: depth first keeps the frontier small
			q.items = q.items[:n-1]
			atomic.StoreInt64(&q.n, int64(len(q.items)))
			q.active++
			return t, true
		}
		if q.active == 0 {
			q.cond.Broadcast()
			return nil, false
		}
		q.cond.Wait()
	}
}

// begin marks the calling worker active (it took work from its local stack).
func (q *workQueue) begin() {
	q.mu.Lock()
	q.active++
	q.mu.Unlock()
}

func (q *workQueue) done() {
	q.mu.Lock()
	q.active--
	if q.active == 0 && len(q.items) == 0 {
		q.cond.Broadcast()
	}
	q.mu.Unlock()
}

func (q *workQueue) isStopped() bool {
	q.mu.Lock()
	defer q.mu.Unlock()
	return q.stopped
}

func (q *workQueue) stop() {
	q.mu.Lock()
	q.stopped = true
	q.mu.Unlock()
	q.cond.Broadcast()
}

// Explore runs the harness over all paths within the configured bounds.
func (p *Program) Explore() (*Result, error) {
	cfg := p.Cfg
	pkg := p.Pkgs[cfg.Package]
	if pkg == nil {
		return nil, fmt.Errorf("package %s not loaded", cfg.Package)
	}
	entry := pkg.Func(cfg.Entry)
	if entry == nil {
		return nil, fmt.Errorf("harness %s not found in %s", cfg.Entry, cfg.Package)
	}
	t0 := time.Now()
	total := &Result{Unsupported: map[string]int{}, BoundHits: map[string]int{}, Reached: map[string]int{}, Funcs: map[string]int{}, Stubs: map[string]int{}}
	for round := 1; ; round++ {
		p.cellMu.Lock()
		p.writtenGrew = false
		p.writtenFrozen = make(map[string]bool, len(p.written))
		for k := range p.written {
			p.writtenFrozen[k] = true
		}
		p.cellMu.Unlock()
		res, err := p.exploreOnce(entry)
		if err != nil {
			return nil, err
		}
		res.Rounds = round
		total = res
		p.cellMu.RLock()
		grew := p.writtenGrew
		p.cellMu.RUnlock()
		// only a round during which the set of written shared cells did not grow is conclusive: in earlier
		// rounds some racy reads were not yet preemption points
		if !grew || round >= 8 {
			if grew {
				total.BoundHits["written-cell fixpoint not reached in 8 rounds"]++
			}
			break
		}
	}
	total.Wall = time.Since(t0)
	return total, nil
}

func (p *Program) exploreOnce(entry *ssa.Function) (*Result, error) {
	cfg := p.Cfg
	res := &Result{Unsupported: map[string]int{}, BoundHits: map[string]int{}, Reached: map[string]int{}, Funcs: map[string]int{}, Stubs: map[string]int{}}
	q := &workQueue{}
	q.cond = sync.NewCond(&q.mu)
	q.push(nil)
	var mu sync.Mutex
	var wg sync.WaitGroup
	var firstErr error
	for w := 0; w < cfg.Workers; w++ {
		wg.Add(1)
		go func(wid int) {
			defer wg.Done()
			ctx := NewTermCtx()
			sv, err := NewSolver(cfg.Solver, ctx, cfg.TimeoutMs)
			if err != nil {
				mu.Lock()
				firstErr = err
				mu.Unlock()
				q.stop()
				return
			}
			defer func() { sv.Close() }()
			base, err := p.baseState(ctx, sv)
			if err != nil {
				mu.Lock()
				firstErr = err
				mu.Unlock()
				q.stop()
				return
			}
			npaths := 0
			wk := &worker{q: q, nworkers: cfg.Workers}
			for {
				var st *State
				if q.isStopped() {
					break
				}
				if n := len(wk.local); n > 0 {
					st = wk.local[n-1]
					wk.local[n-1] = nil
					wk.local = wk.local[:n-1]
					q.begin()
				} else {
					prefix, ok := q.pop()
					if !ok {
						break
					}
					st = p.newState(base, prefix, q.push)
					st.w = wk
				}
				npaths++
				if npaths%4000 == 0 && len(wk.local) == 0 && !st.resumed {
					// keep term tables and solver state small
					sv.Close()
					ctx = NewTermCtx()
					nsv, err := NewSolver(cfg.Solver, ctx, cfg.TimeoutMs)
					if err != nil {
						q.done()
						q.stop()
						return
					}
					mu.Lock()
					res.Solver.Add(sv.Stats)
					mu.Unlock()
					sv = nsv
					base, err = p.baseState(ctx, sv)
					if err != nil {
						q.done()
						q.stop()
						return
					}
					st = p.newState(base, st.prefix, q.push)
					st.w = wk
				}
				ab := st.runPath(entry)
				mu.Lock()
				res.Paths++
				if progress && res.Paths%500 == 0 {
					fmt.Fprintf(os.Stderr, "progress: paths=%d queue=%d viol=%d\n", res.Paths, len(q.items), len(res.Violations))
				}
				res.Instrs += st.nInstr
				res.Asserts += st.asserts
				res.Inconclusive += st.assertsU
				res.Allocs += st.nAllocs
				if len(st.trace) > res.MaxTraceLen {
					res.MaxTraceLen = len(st.trace)
				}
				for f, n := range st.fnCount {
					res.Funcs[p.fnName(f)] += n
				}
				for s, n := range st.stubCnt {
					res.Stubs[s] += n
				}
				switch ab.kind {
				case abDone:
					res.Completed++
					for l := range st.reached {
						res.Reached[l]++
					}
					if len(res.Samples) < 5 {
						res.Samples = append(res.Samples, st.sampleString())
					}
					if len(res.Witnesses) < 3 && len(st.trace) >= res.MaxTraceLen {
						st.recordViolation("witness", "witness", nil)
						res.Witnesses = append(res.Witnesses, st.violation)
						st.violation = nil
					}
				case abInfeasible:
					res.Infeasible++
				case abFail:
					if st.violation != nil {
						res.Violations = append(res.Violations, st.violation)
					}
					if cfg.StopOnFirst || (cfg.MaxViolations > 0 && len(res.Violations) >= cfg.MaxViolations) {
						q.stop()
					}
				case abUnsupported:
					res.Unsupported[ab.msg]++
				case abBound:
					res.BoundHits[ab.msg]++
					if st.violation != nil && len(res.BoundPaths) < 2 {
						res.BoundPaths = append(res.BoundPaths, st.violation)
					}
				}
				if cfg.MaxPaths > 0 && res.Paths >= cfg.MaxPaths {
					res.Truncated = true
					q.stop()
				}
				mu.Unlock()
				q.done()
			}
			mu.Lock()
			res.Solver.Add(sv.Stats)
			mu.Unlock()
		}(w)
	}
	wg.Wait()
	if firstErr != nil {
		return nil, firstErr
	}
	return res, nil
}

var genCounter int64

func (p *Program) freshState(ctx *TermCtx, sv *Solver) *State {
	st := &State{p: p, c: ctx, s: sv,
		handleOf: map[interface{}]uint64{}, typeHandles: map[string]uint64{}, typeHandlesP: map[types.Type]uint64{}, strCache: map[string]StrV{},
		globals: map[*ssa.Global]*Obj{}, varSet: map[string]*Term{}, inputs: map[string]uint64{}, symIn: map[string]*Term{},
		coinRun: map[string]int{}, coinIdx: map[string]int{}, randName: map[uint64]string{}, backEdges: map[*ssa.BasicBlock]int{},
		reached: map[string]bool{}, fnCount: map[*ssa.Function]int{}, stubCnt: map[string]int{}, userLive: map[int]bool{},
		ghost: map[string]Value{}, errMsgs: map[uint64]string{}, sharedHandles: map[interface{}]bool{}}
	st.gen = int(atomic.AddInt64(&genCounter, 1))
	st.zero8 = ctx.Const(8, 0)
	st.zero64 = ctx.Const(64, 0)
	st.preemptLeft = p.Cfg.Preempt
	st.devLeft = p.Cfg.Deviations
	st.fs = newFS()
	return st
}

// baseState runs the package initialisers once (per worker and term context); paths start from copies of it.
func (p *Program) baseState(ctx *TermCtx, sv *Solver) (st *State, err error) {
	st = p.freshState(ctx, sv)
	st.newAlt = func([]Dec) { panic("decision during package init") }
	defer func() {
		if r := recover(); r != nil {
			err = fmt.Errorf("package init failed: %v", r)
		}
	}()
	main := &Thread{id: 0, name: "main", hits: map[string]int{}}
	st.threads = []*Thread{main}
	st.cur = main
	for _, pkg := range st.initOrder() {
		if f := pkg.Func("init"); f != nil && len(f.Blocks) > 0 {
			st.pushFrame(main, f, nil, nil, nil)
			st.runUntilReturn(main)
		}
	}
	return st, nil
}

func copyMap[K comparable, V any](m map[K]V) map[K]V {
	n := make(map[K]V, len(m)+8)
	for k, v := range m {
		n[k] = v
	}
	return n
}

// newState derives a path state from the base state (objects are shared copy-on-write).
func (p *Program) newState(base *State, prefix []Dec, push func([]Dec)) *State {
	st := p.freshState(base.c, base.s)
	st.prefix, st.newAlt = prefix, push
	st.objs = append(make([]*Obj, 0, len(base.objs)+64), base.objs...)
	st.handles = append(make([]interface{}, 0, len(base.handles)+32), base.handles...)
	st.handleOf = copyMap(base.handleOf)
	st.typeHandles = copyMap(base.typeHandles)
	st.typeHandlesP = copyMap(base.typeHandlesP)
	st.strCache = copyMap(base.strCache)
	st.globals = copyMap(base.globals)
	st.errMsgs = copyMap(base.errMsgs)
	st.randName = copyMap(base.randName)
	st.nRand = base.nRand
	st.s.ResetToBase()
	st.s.Push()
	return st
}

func (st *State) runPath(entry *ssa.Function) (ab pathAbort) {
	defer func() {
		if r := recover(); r != nil {
			if pa, ok := r.(pathAbort); ok {
				ab = pa
				if pa.kind != abFail {
					// assertions registered before the path was cut still have to be discharged
					func() {
						defer func() {
							if r2 := recover(); r2 != nil {
								if pa2, ok := r2.(pathAbort); ok {
									ab = pa2
								}
							}
						}()
						st.flushAsserts()
					}()
				}
				return
			}
			// engine bug: report as unsupported with location
			ab = pathAbort{abUnsupported, fmt.Sprintf("engine panic: %v at %s", r, st.p.Fset.Position(st.lastPos))}
			if os.Getenv("VERIF_DEBUG") != "" {
				panic(r)
			}
		}
	}()
	if !st.resumed {
		main := &Thread{id: 0, name: "main", hits: map[string]int{}}
		st.threads = []*Thread{main}
		st.cur = main
		st.pushFrame(main, entry, nil, nil, nil)
	}
	st.runLoop()
	st.flushAsserts()
	return pathAbort{abDone, ""}
}

// runUntilReturn runs the main thread until its frame stack empties (used for init).
func (st *State) runUntilReturn(th *Thread) {
	for th.fr != nil {
		if th.status != thReady {
			st.abort(abUnsupported, "init blocked")
		}
		st.step(th)
	}
	th.status = thReady
}

func (st *State) initOrder() []*ssa.Package { return st.p.Targets }

var _ = sort.Strings

func importsPkg(a, b *types.Package) bool {
	for _, im := range a.Imports() {
		if im == b {
			return true
		}
	}
	return false
}

func (st *State) sampleString() string {
	var sb strings.Builder
	m := st.currentModel()
	names := map[string]uint64{}
	for k, v := range st.inputs {
		names[k] = v
	}
	for name, t := range st.symIn {
		if v, ok := st.c.Eval(t, m, map[*Term]uint64{}); ok {
			names[name] = v
		}
	}
	for _, k := range st.sortedInputs(names) {
		fmt.Fprintf(&sb, "%s=%d ", k, names[k])
	}
	fmt.Fprintf(&sb, "| decisions=%d pc=%d", len(st.trace), len(st.pc))
	return sb.String()
}

func HarnessOverlay(repoDir, harnessDir, pkgRel string) map[string]string {
	ov := map[string]string{}
	files, _ := filepath.Glob(filepath.Join(harnessDir, "*.go"))
	for _, f := range files {
		if strings.HasSuffix(f, "_native.go") || strings.HasSuffix(f, "_test.go") {
			continue
		}
		ov[filepath.Join(repoDir, pkgRel, "zz_verif_"+filepath.Base(f))] = f
	}
	return ov
}

// RunHarness loads repo with the harness files of pkgRel overlaid and explores cfg.Entry.
func RunHarness(repo, verif, pkgRel string, cfg *Config) (*Result, error) {
	hdir := map[string]string{".": "nitro", "./skiplist": "skiplist", "./nodetable": "nodetable"}[pkgRel]
	pkgName := hdir
	ov := HarnessOverlay(repo, filepath.Join(verif, "harness", hdir), pkgRel)
	// API file from template
	tmpl, err := os.ReadFile(filepath.Join(verif, "harness", "api.go.tmpl"))
	if err != nil {
		return nil, err
	}
	tmp, err := os.CreateTemp("", "verifapi*.go")
	if err != nil {
		return nil, err
	}
	defer os.Remove(tmp.Name())
	tmp.WriteString(strings.Replace(string(tmpl), "package PKG", "package "+pkgName, 1))
	tmp.Close()
	ov[filepath.Join(repo, pkgRel, "zz_verif_api.go")] = tmp.Name()
	mod := ModulePath
	cfg.Package = mod
	if pkgRel != "." {
		cfg.Package = mod + "/" + strings.TrimPrefix(pkgRel, "./")
	}
	p, err := Load(repo, []string{pkgRel}, ov, cfg)
	if err != nil {
		return nil, err
	}
	return p.Explore()
}
