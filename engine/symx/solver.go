package symx

import (
	"bufio"
	"fmt"
	"io"
	"os"
	"os/exec"
	"strings"
	"time"
)

// Solver is one persistent SMT solver process driven over pipes.
type Solver struct {
	name   string
	cmd    *exec.Cmd
	in     io.WriteCloser
	out    *bufio.Reader
	ctx    *TermCtx
	decl   []map[string]bool // per scope: declared symbols
	depth  int
	Stats  *SolverStats
	logf   *os.File
	broken bool
	owner  interface{} // the state whose path condition is currently asserted
}

type SolverStats struct {
	Queries  int
	Sat      int
	Unsat    int
	Unknown  int
	Errors   int
	Time     time.Duration
	MaxQuery time.Duration
}

func (s *SolverStats) Add(o *SolverStats) {
	s.Queries += o.Queries
	s.Sat += o.Sat
	s.Unsat += o.Unsat
	s.Unknown += o.Unknown
	s.Errors += o.Errors
	s.Time += o.Time
	if o.MaxQuery > s.MaxQuery {
		s.MaxQuery = o.MaxQuery
	}
}

func solverArgv(name string, timeoutMs int) []string {
	switch name {
	case "z3":
		return []string{"z3", "-in", fmt.Sprintf("-t:%d", timeoutMs)}
	case "z3-new":
		return []string{"z3-new", "-in", fmt.Sprintf("-t:%d", timeoutMs)}
	case "cvc5":
		return []string{"cvc5", "--incremental", "--lang=smt2", "--produce-models", fmt.Sprintf("--tlimit-per=%d", timeoutMs)}
	}
	panic("unknown solver " + name)
}

func NewSolver(name string, ctx *TermCtx, timeoutMs int) (*Solver, error) {
	argv := solverArgv(name, timeoutMs)
	cmd := exec.Command(argv[0], argv[1:]...)
	in, err := cmd.StdinPipe()
	if err != nil {
		return nil, err
	}
	outp, err := cmd.StdoutPipe()
	if err != nil {
		return nil, err
	}
	cmd.Stderr = cmd.Stdout
	if err := cmd.Start(); err != nil {
		return nil, err
	}
	s := &Solver{name: name, cmd: cmd, in: in, out: bufio.NewReaderSize(outp, 1<<16), ctx: ctx, Stats: &SolverStats{}}
	s.decl = []map[string]bool{{}}
	if p := os.Getenv("VERIF_SMTLOG"); p != "" {
		s.logf, _ = os.OpenFile(fmt.Sprintf("%s.%d", p, cmd.Process.Pid), os.O_CREATE|os.O_WRONLY|os.O_TRUNC, 0644)
	}
	s.send("(set-option :produce-models true)")
	if name == "cvc5" {
		s.send("(set-logic ALL)")
	}
	return s, nil
}

func (s *Solver) Close() {
	s.in.Close()
	s.cmd.Process.Kill()
	s.cmd.Wait()
	if s.logf != nil {
		s.logf.Close()
	}
}

func (s *Solver) send(line string) {
	if s.logf != nil {
		s.logf.WriteString(line + "\n")
	}
	io.WriteString(s.in, line+"\n")
}

func (s *Solver) readLine() string {
	l, err := s.out.ReadString('\n')
	if err != nil {
		s.broken = true
		return "(error \"solver died\")"
	}
	return strings.TrimSpace(l)
}

// readSexp reads one balanced s-expression (possibly multi-line).
func (s *Solver) readSexp() string {
	var sb strings.Builder
	depth := 0
	started := false
	for {
		l, err := s.out.ReadString('\n')
		if err != nil {
			s.broken = true
			return sb.String()
		}
		for _, ch := range l {
			if ch == '(' {
				depth++
				started = true
			} else if ch == ')' {
				depth--
			}
		}
		sb.WriteString(l)
		if started && depth <= 0 {
			break
		}
		if !started && strings.TrimSpace(l) != "" {
			break
		}
	}
	return sb.String()
}

func (s *Solver) Push() {
	s.send("(push 1)")
	s.decl = append(s.decl, map[string]bool{})
	s.depth++
}

func (s *Solver) Pop() {
	s.send("(pop 1)")
	s.decl = s.decl[:len(s.decl)-1]
	s.depth--
}

// ResetToBase pops all scopes.
func (s *Solver) ResetToBase() {
	for s.depth > 0 {
		s.Pop()
	}
}

func (s *Solver) isDeclared(n string) bool {
	for _, d := range s.decl {
		if d[n] {
			return true
		}
	}
	return false
}

func (s *Solver) declareFor(t *Term) {
	vars := map[*Term]bool{}
	t.Vars(vars, map[*Term]bool{})
	for v := range vars {
		if !s.isDeclared(v.S) {
			s.send("(declare-const " + v.S + " " + sortOf(v.W) + ")")
			s.decl[len(s.decl)-1][v.S] = true
		}
	}
	// UFs
	var walk func(x *Term, seen map[*Term]bool)
	walk = func(x *Term, seen map[*Term]bool) {
		if seen[x] {
			return
		}
		seen[x] = true
		if x.Op == OpUF && !s.isDeclared("uf:"+x.S) {
			s.send(s.ctx.ufs[x.S])
			s.decl[len(s.decl)-1]["uf:"+x.S] = true
		}
		for _, a := range x.A {
			walk(a, seen)
		}
	}
	walk(t, map[*Term]bool{})
}

func (s *Solver) Assert(t *Term) {
	if t.IsTrue() {
		return
	}
	s.declareFor(t)
	s.send("(assert " + s.ctx.Print(t) + ")")
}

type SatResult int

const (
	Unsat SatResult = iota
	Sat
	Unknown
)

func (r SatResult) String() string { return [...]string{"unsat", "sat", "unknown"}[r] }

func (s *Solver) Check() SatResult {
	t0 := time.Now()
	s.send("(check-sat)")
	var res SatResult = Unknown
	sawErr := false
loop:
	for {
		l := s.readLine()
		switch {
		case l == "sat":
			res = Sat
			break loop
		case l == "unsat":
			res = Unsat
			break loop
		case l == "unknown" || l == "timeout":
			res = Unknown
			break loop
		case strings.HasPrefix(l, "(error"):
			sawErr = true
			fmt.Fprintf(os.Stderr, "solver error: %s\n", l)
			if s.broken {
				break loop
			}
		case l == "":
			if s.broken {
				break loop
			}
		default:
			fmt.Fprintf(os.Stderr, "solver says: %s\n", l)
			if s.broken {
				break loop
			}
		}
	}
	d := time.Since(t0)
	s.Stats.Queries++
	s.Stats.Time += d
	if d > s.Stats.MaxQuery {
		s.Stats.MaxQuery = d
	}
	if sawErr {
		// an error line anywhere makes the verdict untrustworthy
		s.Stats.Errors++
		res = Unknown
	}
	switch res {
	case Sat:
		s.Stats.Sat++
	case Unsat:
		s.Stats.Unsat++
	default:
		s.Stats.Unknown++
	}
	return res
}

// GetModel returns values for the given variables (call after Sat).
func (s *Solver) GetModel(vars []*Term) Model {
	m := Model{}
	if len(vars) == 0 {
		return m
	}
	var sb strings.Builder
	sb.WriteString("(get-value (")
	for _, v := range vars {
		if !s.isDeclared(v.S) {
			continue
		}
		sb.WriteString(v.S + " ")
	}
	sb.WriteString("))")
	s.send(sb.String())
	txt := s.readSexp()
	// parse ((name value) ...)
	toks := tokenize(txt)
	for i := 0; i+1 < len(toks); i++ {
		if toks[i] == "(" && i+3 < len(toks) && toks[i+3] == ")" && toks[i+1] != "(" {
			name, val := toks[i+1], toks[i+2]
			if v, ok := parseVal(val); ok {
				m[name] = v
			}
		} else if toks[i] == "(" && i+7 < len(toks) && toks[i+2] == "(" && toks[i+3] == "_" && strings.HasPrefix(toks[i+4], "bv") {
			// (name (_ bvN w))
			var v uint64
			fmt.Sscanf(toks[i+4][2:], "%d", &v)
			m[toks[i+1]] = v
		}
	}
	return m
}

func tokenize(s string) []string {
	var toks []string
	cur := ""
	for _, ch := range s {
		switch ch {
		case '(', ')':
			if cur != "" {
				toks = append(toks, cur)
				cur = ""
			}
			toks = append(toks, string(ch))
		case ' ', '\n', '\t', '\r':
			if cur != "" {
				toks = append(toks, cur)
				cur = ""
			}
		default:
			cur += string(ch)
		}
	}
	if cur != "" {
		toks = append(toks, cur)
	}
	return toks
}

func parseVal(v string) (uint64, bool) {
	switch {
	case v == "true":
		return 1, true
	case v == "false":
		return 0, true
	case strings.HasPrefix(v, "#x"):
		var r uint64
		_, err := fmt.Sscanf(v[2:], "%x", &r)
		return r, err == nil
	case strings.HasPrefix(v, "#b"):
		var r uint64
		_, err := fmt.Sscanf(v[2:], "%b", &r)
		return r, err == nil
	}
	return 0, false
}
