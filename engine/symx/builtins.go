package symx

import (
	"fmt"
	"go/types"

	"golang.org/x/tools/go/ssa"
)

func (st *State) builtin(th *Thread, fr *Frame, bi *ssa.Builtin, args []Value, argExprs []ssa.Value, callIns ssa.Instruction) {
	c := st.c
	var res Value
	switch bi.Name() {
	case "len":
		switch x := args[0].(type) {
		case SliceV:
			res = x.Len
		case StrV:
			res = x.Len
		case MapRef:
			if x == 0 {
				res = st.zero64
			} else {
				res = c.Const(64, uint64(len(st.mapR(x).Keys)))
			}
		case ChanRef:
			if x == 0 {
				res = st.zero64
			} else {
				res = c.Const(64, uint64(len(st.chanR(x).buf)))
			}
		case Agg:
			res = c.Const(64, uint64(len(x)))
		case *Term: // pointer to array
			at := argExprs[0].Type().Underlying().(*types.Pointer).Elem().Underlying().(*types.Array)
			res = c.Const(64, uint64(at.Len()))
		default:
			st.abort(abUnsupported, fmt.Sprintf("len of %T", x))
		}
	case "cap":
		switch x := args[0].(type) {
		case SliceV:
			res = x.Cap
		case ChanRef:
			res = c.Const(64, uint64(st.chanR(x).cap))
		case Agg:
			res = c.Const(64, uint64(len(x)))
		default:
			st.abort(abUnsupported, fmt.Sprintf("cap of %T", x))
		}
	case "append":
		res = st.appendSlice(args[0].(SliceV), args[1], bi.Type().(*types.Signature).Params().At(0).Type())
	case "copy":
		dst := args[0].(SliceV)
		var sp, sl *Term
		switch s := args[1].(type) {
		case SliceV:
			sp, sl = s.Ptr, s.Len
		case StrV:
			sp, sl = s.Ptr, s.Len
		}
		es := sizeof(bi.Type().(*types.Signature).Params().At(0).Type().Underlying().(*types.Slice).Elem())
		n := int(st.concretize(sl, "copy src len"))
		dn := int(st.concretize(dst.Len, "copy dst len"))
		if dn < n {
			n = dn
		}
		st.memmove(dst.Ptr, sp, n*es)
		res = c.Const(64, uint64(n))
	case "delete":
		st.mapDelete(args[0].(MapRef), args[1])
	case "close":
		st.closeChan(args[0].(ChanRef))
	case "print", "println":
	case "recover":
		res = IfaceV{}
	case "ssa:wrapnilchk":
		p := args[0].(*Term)
		if p.IsConst() && p.C == 0 {
			st.fail("nil pointer dereference (method value on nil)")
		}
		res = p
	case "min", "max":
		a, b := args[0].(*Term), args[1].(*Term)
		signed := isSigned(argExprs[0].Type())
		var lt *Term
		if signed {
			lt = c.Slt(a, b)
		} else {
			lt = c.Ult(a, b)
		}
		if bi.Name() == "min" {
			res = c.Ite(lt, a, b)
		} else {
			res = c.Ite(lt, b, a)
		}
	default:
		st.abort(abUnsupported, "builtin "+bi.Name())
	}
	st.deliver(th, callIns, res)
}

func (st *State) memmove(dst, src *Term, n int) {
	if n == 0 {
		return
	}
	d := st.constAddr(dst, "copy dst")
	s := st.constAddr(src, "copy src")
	so, soff := st.resolve(s, n, "copy source")
	st.noteAccess(so, soff, n, false)
	tmp := make([]*Term, n)
	for i := 0; i < n; i++ {
		tmp[i] = so.getByte(soff + i)
	}
	do, doff := st.resolve(d, n, "copy destination")
	do = st.wobj(do)
	st.noteAccess(do, doff, n, true)
	for i := 0; i < n; i++ {
		do.setByte(doff+i, tmp[i])
	}
	st.publishRange(do, doff, n)
}

func (st *State) appendSlice(s SliceV, more Value, ST types.Type) Value {
	c := st.c
	es := sizeof(ST.Underlying().(*types.Slice).Elem())
	var mp, ml *Term
	switch m := more.(type) {
	case SliceV:
		mp, ml = m.Ptr, m.Len
	case StrV:
		mp, ml = m.Ptr, m.Len
	}
	n := int(st.concretize(ml, "append count"))
	ln := int(st.concretize(s.Len, "append len"))
	cp := int(st.concretize(s.Cap, "append cap"))
	if n == 0 {
		return s
	}
	if ln+n <= cp {
		st.memmove(c.Add(s.Ptr, c.Const(64, uint64(ln*es))), mp, n*es)
		return SliceV{s.Ptr, c.Const(64, uint64(ln+n)), s.Cap}
	}
	ncap := 2 * cp
	if ncap < ln+n {
		ncap = ln + n
	}
	o := st.newObj(ncap*es, "alloc", "append "+ST.String())
	np := st.ptrTo(o, 0)
	if ln > 0 {
		st.memmove(np, s.Ptr, ln*es)
	}
	st.memmove(c.Add(np, c.Const(64, uint64(ln*es))), mp, n*es)
	return SliceV{np, c.Const(64, uint64(ln+n)), c.Const(64, uint64(ncap))}
}

// ---- byte string helpers

// bytesCompare returns a 64-bit term in {-1,0,1}; lengths are concretised.
func (st *State) bytesCompare(ap, al, bp, bl *Term) *Term {
	c := st.c
	a := st.byteTerms(ap, al, "compare")
	b := st.byteTerms(bp, bl, "compare")
	n := len(a)
	if len(b) < n {
		n = len(b)
	}
	var tail *Term
	switch {
	case len(a) < len(b):
		tail = c.Const(64, ^uint64(0))
	case len(a) > len(b):
		tail = c.Const(64, 1)
	default:
		tail = c.Const(64, 0)
	}
	r := tail
	for i := n - 1; i >= 0; i-- {
		r = c.Ite(c.Ult(a[i], b[i]), c.Const(64, ^uint64(0)), c.Ite(c.Eq(a[i], b[i]), r, c.Const(64, 1)))
	}
	return r
}

func (st *State) bytesEqual(ap, al, bp, bl *Term) *Term {
	c := st.c
	if !al.IsConst() || !bl.IsConst() {
		if !st.branch(c.Eq(al, bl)) {
			return c.False
		}
	} else if al.C != bl.C {
		return c.False
	}
	a := st.byteTerms(ap, al, "equal")
	b := st.byteTerms(bp, bl, "equal")
	if len(a) != len(b) {
		return c.False
	}
	r := c.True
	for i := range a {
		r = c.BAnd(r, c.Eq(a[i], b[i]))
	}
	return r
}

func (st *State) strConcat(x, y StrV) Value {
	a := st.byteTerms(x.Ptr, x.Len, "string concat")
	b := st.byteTerms(y.Ptr, y.Len, "string concat")
	o := st.newObj(len(a)+len(b), "alloc", "string concat")
	o.ensure()
	for i, t := range append(append([]*Term(nil), a...), b...) {
		if !(t.IsConst() && t.C == 0) {
			o.setByte(i, t)
		}
	}
	return StrV{st.ptrTo(o, 0), st.c.Const(64, uint64(len(a)+len(b)))}
}

// newBytes allocates a byte object with the given constant content and returns a slice value.
func (st *State) newBytes(b []byte, label string) SliceV {
	o := st.newObj(len(b), "alloc", label)
	o.ensure()
	for i, x := range b {
		if x != 0 {
			o.setByte(i, st.c.Const(8, uint64(x)))
		}
	}
	n := st.c.Const(64, uint64(len(b)))
	return SliceV{st.ptrTo(o, 0), n, n}
}

// ---- opaque errors

func (st *State) opaqueError(msg string) IfaceV {
	o := st.newObj(1, "const", "error: "+msg)
	o.owner = -1
	p := st.ptrTo(o, 0)
	st.errMsgs[p.C] = msg
	return IfaceV{T: st.p.opaqueErrType(), V: p}
}

var opaqueErrT types.Type

func (p *Program) opaqueErrType() types.Type {
	p.fnMu.Lock()
	defer p.fnMu.Unlock()
	if opaqueErrT == nil {
		tn := types.NewTypeName(0, nil, "verifOpaqueError", nil)
		named := types.NewNamed(tn, types.NewStruct(nil, nil), nil)
		opaqueErrT = types.NewPointer(named)
	}
	return opaqueErrT
}

var opaqueFileInfoT types.Type

// opaqueFileInfoType is the dynamic type of the os.FileInfo values the os.Stat stub returns.
func (p *Program) opaqueFileInfoType() types.Type {
	p.fnMu.Lock()
	defer p.fnMu.Unlock()
	if opaqueFileInfoT == nil {
		tn := types.NewTypeName(0, nil, "verifFileInfo", nil)
		named := types.NewNamed(tn, types.NewStruct(nil, nil), nil)
		opaqueFileInfoT = types.NewPointer(named)
	}
	return opaqueFileInfoT
}

func (st *State) specialImplements(iv IfaceV, T types.Type) bool {
	if iv.T == st.p.opaqueErrType() && T.String() == "error" {
		return true
	}
	if iv.T == st.p.opaqueFileInfoType() && (T.String() == "os.FileInfo" || T.String() == "io/fs.FileInfo") {
		return true
	}
	return false
}

// specialInvoke handles method calls on engine-synthesised dynamic values.
func (st *State) specialInvoke(recv IfaceV, m *types.Func, args []Value) (Value, bool) {
	if recv.T == st.p.opaqueErrType() {
		if m.Name() == "Error" {
			msg := st.errMsgs[recv.V.(*Term).C]
			return st.constString(msg), true
		}
	}
	if recv.T == st.p.opaqueFileInfoType() {
		path := st.errMsgs[recv.V.(*Term).C]
		switch m.Name() {
		case "Size":
			if f := st.fs.files[path]; f != nil {
				return st.c.Const(64, uint64(len(f.data))), true
			}
			return st.zero64, true
		case "IsDir":
			return st.c.Bool(st.fs.dirs[path]), true
		case "Name":
			return st.constString(path), true
		}
		st.abort(abUnsupported, "os.FileInfo."+m.Name())
	}
	if rt, ok := recv.V.(RTypeV); ok {
		switch m.Name() {
		case "Size":
			return st.c.Const(64, uint64(sizeof(rt.T))), true
		}
		st.abort(abUnsupported, "reflect.Type."+m.Name())
	}
	return nil, false
}
