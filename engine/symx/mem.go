package symx

import (
	"fmt"
	"go/types"

	"golang.org/x/tools/go/ssa"
)

// ---- values held in SSA registers

type Value interface{}

type Agg []Value // struct, array, tuple

type SliceV struct{ Ptr, Len, Cap *Term }
type StrV struct{ Ptr, Len *Term }
type IfaceV struct {
	T types.Type // dynamic type; nil = nil interface
	V Value
}
type Closure struct {
	Fn   *ssa.Function
	Env  []Value
	Name string // for synthesized closures
}
type FloatV float64

// special dynamic values
type RTypeV struct{ T types.Type }    // reflect.Type
type RValueV struct{ Ptr *Term }      // reflect.Value holding a pointer
type BoundMethod struct {             // method value / interface method closure
	Fn   *ssa.Function
	Recv Value
}

// Maps, channels and map iterators are mutable; register values refer to them through indices into
// per-state tables so that every register value is immutable and states can be cloned cheaply.
type MapRef int  // 0 = nil map
type ChanRef int // 0 = nil channel
type IterRef int

type MapObj struct {
	gen  int
	id   int
	Keys []Value
	Vals []Value
	KT   types.Type
	VT   types.Type
}

type ChanObj struct {
	gen    int
	id     int
	cap    int
	buf    []Value
	closed bool
	ET     types.Type
}

// ---- memory objects

const objShift = 32
const bigObj = 1 << 20 // objects at least this large keep their bytes in a sparse map
const objMaxSize = 1 << objShift
const handleBase = uint64(1) << 54

type Obj struct {
	id     int
	size   int
	bytes  []*Term // nil entry = zero byte
	freed  bool
	kind   string // "alloc", "global", "user" (tracking allocator), "const", ...
	label  string
	owner  int  // thread that allocated it (-1 = setup/shared)
	shared bool // visible to more than one thread
	user   bool // came from the tracking allocator
	site   string
	sparse map[int]*Term // big objects only
	fill   *Term         // big objects: content of bytes never written (nil = zero)
	gen    int // state generation that owns this copy (copy-on-write across states)
}

// wobj returns a copy of o that this state may modify.
func (st *State) wobj(o *Obj) *Obj {
	if o.gen == st.gen {
		return o
	}
	n := *o
	n.gen = st.gen
	if o.bytes != nil {
		n.bytes = append([]*Term(nil), o.bytes...)
	}
	if o.sparse != nil {
		n.sparse = make(map[int]*Term, len(o.sparse))
		for k, v := range o.sparse {
			n.sparse[k] = v
		}
	}
	st.objs[o.id] = &n
	return &n
}

func (st *State) mapR(r MapRef) *MapObj {
	if r == 0 {
		return nil
	}
	return st.maps[r]
}

func (st *State) mapW(r MapRef) *MapObj {
	m := st.maps[r]
	if m.gen != st.gen {
		n := *m
		n.gen = st.gen
		n.Keys = append([]Value(nil), m.Keys...)
		n.Vals = append([]Value(nil), m.Vals...)
		st.maps[r] = &n
		return &n
	}
	return m
}

func (st *State) newMap(KT, VT types.Type) MapRef {
	if len(st.maps) == 0 {
		st.maps = append(st.maps, nil)
	}
	st.maps = append(st.maps, &MapObj{gen: st.gen, KT: KT, VT: VT})
	return MapRef(len(st.maps) - 1)
}

func (st *State) chanR(r ChanRef) *ChanObj {
	if r == 0 {
		return nil
	}
	return st.chans[r]
}

func (st *State) chanW(r ChanRef) *ChanObj {
	c := st.chans[r]
	if c.gen != st.gen {
		n := *c
		n.gen = st.gen
		n.buf = append([]Value(nil), c.buf...)
		st.chans[r] = &n
		return &n
	}
	return c
}

func (st *State) newChan(cap int, ET types.Type) ChanRef {
	if len(st.chans) == 0 {
		st.chans = append(st.chans, nil)
	}
	st.chans = append(st.chans, &ChanObj{gen: st.gen, cap: cap, ET: ET})
	return ChanRef(len(st.chans) - 1)
}

func (o *Obj) setByte(i int, b *Term) {
	if o.size >= bigObj {
		if o.sparse == nil {
			o.sparse = map[int]*Term{}
		}
		if o.fill == nil && (b == nil || (b.IsConst() && b.C == 0)) {
			delete(o.sparse, i)
		} else {
			o.sparse[i] = b
		}
		return
	}
	if b != nil && b.IsConst() && b.C == 0 {
		b = nil
	}
	if o.bytes == nil {
		if b == nil {
			return
		}
		o.bytes = make([]*Term, o.size)
	}
	o.bytes[i] = b
}

func (o *Obj) getByte(i int) *Term {
	if o.size >= bigObj {
		if b, ok := o.sparse[i]; ok {
			return b
		}
		return o.fill
	}
	if o.bytes == nil {
		return nil
	}
	return o.bytes[i]
}

func (o *Obj) ensure() {
	if o.size >= bigObj {
		return
	}
	if o.bytes == nil {
		o.bytes = make([]*Term, o.size)
	}
}

func (o *Obj) base() uint64 { return uint64(o.id+1) << objShift }

var sizes = types.SizesFor("gc", "amd64")

func sizeof(T types.Type) int { return int(sizes.Sizeof(T)) }

func (st *State) newObj(size int, kind, label string) *Obj {
	if size < 0 || size >= objMaxSize {
		st.abort(abUnsupported, fmt.Sprintf("object too large: %d bytes (%s)", size, label))
	}
	o := &Obj{id: len(st.objs), size: size, gen: st.gen, kind: kind, label: label, owner: st.curThreadID()}
	st.objs = append(st.objs, o)
	st.nAllocs++
	return o
}

func (st *State) ptrTo(o *Obj, off int) *Term { return st.c.Const(64, o.base()+uint64(off)) }

// resolve maps a concrete address to object and offset.
func (st *State) resolve(addr uint64, n int, what string) (*Obj, int) {
	if addr == 0 {
		st.fail(fmt.Sprintf("nil pointer dereference (%s)", what))
	}
	id := int(addr>>objShift) - 1
	if id < 0 || id >= len(st.objs) {
		st.fail(fmt.Sprintf("invalid pointer %#x (%s)", addr, what))
	}
	o := st.objs[id]
	off := int(addr & (objMaxSize - 1))
	if o.freed {
		st.fail(fmt.Sprintf("use after free: %s of block %s (obj %d, allocated at %s) at offset %d", what, o.label, o.id, o.site, off))
	}
	if off+n > o.size {
		st.fail(fmt.Sprintf("out of bounds %s: obj %d (%s) size %d, offset %d len %d", what, o.id, o.label, o.size, off, n))
	}
	return o, off
}

func (st *State) byteAt(o *Obj, off int) *Term {
	if b := o.getByte(off); b != nil {
		return b
	}
	return st.zero8
}

// loadBits loads n bytes (n<=8) little-endian as an 8n-bit term.
func (st *State) loadBits(addr uint64, n int) *Term {
	o, off := st.resolve(addr, n, "load")
	st.noteAccess(o, off, n, false)
	t := st.byteAt(o, off+n-1)
	for i := n - 2; i >= 0; i-- {
		t = st.c.Concat(t, st.byteAt(o, off+i))
	}
	return t
}

func (st *State) storeBits(addr uint64, n int, v *Term) {
	if v.W != 8*n {
		panic(fmt.Sprintf("storeBits width %d into %d bytes", v.W, n))
	}
	o, off := st.resolve(addr, n, "store")
	o = st.wobj(o)
	st.noteAccess(o, off, n, true)
	if o.size < bigObj && o.bytes == nil {
		if v.IsConst() && v.C == 0 {
			return
		}
	}
	for i := 0; i < n; i++ {
		o.setByte(off+i, st.c.Extract(v, 8*i+7, 8*i))
	}
}

// ---- handles for non-byte values stored in memory

func (st *State) handleFor(v interface{}) uint64 {
	if h, ok := st.handleOf[v]; ok {
		return h
	}
	h := handleBase + uint64(len(st.handles))
	st.handles = append(st.handles, v)
	st.handleOf[v] = h
	return h
}

func (st *State) fromHandle(h uint64) interface{} {
	if h < handleBase || h-handleBase >= uint64(len(st.handles)) {
		st.fail(fmt.Sprintf("bad handle %#x", h))
	}
	return st.handles[h-handleBase]
}

func (st *State) typeHandle(T types.Type) uint64 {
	if h, ok := st.typeHandlesP[T]; ok {
		return h
	}
	h := st.typeHandleSlow(T)
	st.typeHandlesP[T] = h
	return h
}

func (st *State) typeHandleSlow(T types.Type) uint64 {
	k := "T:" + types.TypeString(T, nil)
	if h, ok := st.typeHandles[k]; ok {
		return h
	}
	h := handleBase + uint64(len(st.handles))
	st.handles = append(st.handles, T)
	st.typeHandles[k] = h
	return h
}

func pointerShaped(T types.Type) bool {
	switch u := T.Underlying().(type) {
	case *types.Pointer, *types.Map, *types.Chan, *types.Signature:
		return true
	case *types.Basic:
		return u.Kind() == types.UnsafePointer
	}
	return false
}

// ---- typed load/store

func (st *State) constAddr(addr *Term, what string) uint64 {
	if !addr.IsConst() {
		return st.concretize(addr, what)
	}
	return addr.C
}

func (st *State) load(addrT *Term, T types.Type) Value {
	addr := st.constAddr(addrT, "load address")
	return st.loadAt(addr, T)
}

func (st *State) loadAt(addr uint64, T types.Type) Value {
	switch u := T.Underlying().(type) {
	case *types.Basic:
		switch {
		case u.Info()&types.IsBoolean != 0:
			b := st.loadBits(addr, 1)
			return st.c.Ne(b, st.zero8)
		case u.Info()&types.IsString != 0:
			return StrV{st.loadBits(addr, 8), st.loadBits(addr+8, 8)}
		case u.Info()&types.IsFloat != 0:
			t := st.loadBits(addr, sizeof(T))
			if !t.IsConst() {
				st.abort(abUnsupported, "symbolic float in memory")
			}
			return floatFromBits(t.C, sizeof(T))
		case u.Info()&types.IsComplex != 0:
			st.abort(abUnsupported, "complex")
		}
		return st.loadBits(addr, sizeof(T))
	case *types.Pointer:
		return st.loadBits(addr, 8)
	case *types.Slice:
		return SliceV{st.loadBits(addr, 8), st.loadBits(addr+8, 8), st.loadBits(addr+16, 8)}
	case *types.Struct:
		offs := st.offsets(u)
		a := make(Agg, u.NumFields())
		for i := range a {
			a[i] = st.loadAt(addr+uint64(offs[i]), u.Field(i).Type())
		}
		return a
	case *types.Array:
		es := uint64(sizeof(u.Elem()))
		a := make(Agg, u.Len())
		for i := range a {
			a[i] = st.loadAt(addr+uint64(i)*es, u.Elem())
		}
		return a
	case *types.Interface:
		th := st.loadBits(addr, 8)
		if !th.IsConst() {
			st.abort(abUnsupported, "symbolic interface type word")
		}
		if th.C == 0 {
			return IfaceV{}
		}
		DT := st.fromHandle(th.C).(types.Type)
		d := st.loadBits(addr+8, 8)
		if pointerShaped(DT) && !isHandleType(DT) {
			return IfaceV{DT, d}
		}
		if !d.IsConst() {
			st.abort(abUnsupported, "symbolic interface data word")
		}
		hv := st.fromHandle(d.C)
		if b, ok := hv.(*box); ok {
			return IfaceV{DT, b.v}
		}
		return IfaceV{DT, hv}
	case *types.Signature:
		h := st.loadBits(addr, 8)
		if !h.IsConst() {
			st.abort(abUnsupported, "symbolic func value")
		}
		if h.C == 0 {
			return (*Closure)(nil)
		}
		return st.fromHandle(h.C)
	case *types.Map:
		h := st.loadBits(addr, 8)
		if !h.IsConst() {
			st.abort(abUnsupported, "symbolic map value")
		}
		if h.C == 0 {
			return MapRef(0)
		}
		return st.fromHandle(h.C)
	case *types.Chan:
		h := st.loadBits(addr, 8)
		if !h.IsConst() {
			st.abort(abUnsupported, "symbolic chan value")
		}
		if h.C == 0 {
			return ChanRef(0)
		}
		return st.fromHandle(h.C)
	}
	st.abort(abUnsupported, "load of type "+T.String())
	return nil
}

func isHandleType(T types.Type) bool {
	switch T.Underlying().(type) {
	case *types.Map, *types.Chan, *types.Signature:
		return true
	}
	return false
}

func (st *State) store(addrT *Term, T types.Type, v Value) {
	addr := st.constAddr(addrT, "store address")
	st.storeAt(addr, T, v)
}

func (st *State) storeAt(addr uint64, T types.Type, v Value) {
	switch u := T.Underlying().(type) {
	case *types.Basic:
		switch {
		case u.Info()&types.IsBoolean != 0:
			st.storeBits(addr, 1, st.c.BoolToBV(v.(*Term), 8))
			return
		case u.Info()&types.IsString != 0:
			s := v.(StrV)
			st.storeBits(addr, 8, s.Ptr)
			st.storeBits(addr+8, 8, s.Len)
			return
		case u.Info()&types.IsFloat != 0:
			st.storeBits(addr, sizeof(T), st.c.Const(8*sizeof(T), floatBits(float64(v.(FloatV)), sizeof(T))))
			return
		}
		st.storeBits(addr, sizeof(T), v.(*Term))
	case *types.Pointer:
		st.storeBits(addr, 8, v.(*Term))
		st.notePublish(addr, v.(*Term))
	case *types.Slice:
		s := v.(SliceV)
		st.storeBits(addr, 8, s.Ptr)
		st.storeBits(addr+8, 8, s.Len)
		st.storeBits(addr+16, 8, s.Cap)
		st.notePublish(addr, s.Ptr)
	case *types.Struct:
		offs := st.offsets(u)
		a := v.(Agg)
		for i := range a {
			st.storeAt(addr+uint64(offs[i]), u.Field(i).Type(), a[i])
		}
	case *types.Array:
		es := uint64(sizeof(u.Elem()))
		a := v.(Agg)
		for i := range a {
			st.storeAt(addr+uint64(i)*es, u.Elem(), a[i])
		}
	case *types.Interface:
		iv := v.(IfaceV)
		if iv.T == nil {
			st.storeBits(addr, 8, st.zero64)
			st.storeBits(addr+8, 8, st.zero64)
			return
		}
		st.storeBits(addr, 8, st.c.Const(64, st.typeHandle(iv.T)))
		if pointerShaped(iv.T) && !isHandleType(iv.T) {
			st.storeBits(addr+8, 8, iv.V.(*Term))
			st.notePublish(addr, iv.V.(*Term))
		} else {
			st.storeBits(addr+8, 8, st.c.Const(64, st.boxHandle(iv.V)))
		}
	case *types.Signature:
		switch f := v.(type) {
		case *Closure:
			if f == nil {
				st.storeBits(addr, 8, st.zero64)
			} else {
				st.storeBits(addr, 8, st.c.Const(64, st.handleFor(f)))
			}
		case *BoundMethod:
			st.storeBits(addr, 8, st.c.Const(64, st.handleFor(f)))
		default:
			st.abort(abUnsupported, fmt.Sprintf("store func value %T", v))
		}
	case *types.Map:
		m := v.(MapRef)
		if m == 0 {
			st.storeBits(addr, 8, st.zero64)
		} else {
			st.storeBits(addr, 8, st.c.Const(64, st.handleFor(m)))
		}
	case *types.Chan:
		m := v.(ChanRef)
		if m == 0 {
			st.storeBits(addr, 8, st.zero64)
		} else {
			st.storeBits(addr, 8, st.c.Const(64, st.handleFor(m)))
		}
	default:
		st.abort(abUnsupported, "store of type "+T.String())
	}
}

// boxHandle boxes a non-pointer value held in an interface.
func (st *State) boxHandle(v Value) uint64 {
	switch x := v.(type) {
	case *Closure, MapRef, ChanRef, *BoundMethod:
		return st.handleFor(x)
	}
	b := &box{v}
	h := handleBase + uint64(len(st.handles))
	st.handles = append(st.handles, b)
	return h
}

type box struct{ v Value }

func (st *State) offsets(u *types.Struct) []int64 {
	if o, ok := st.p.offs.Load(u); ok {
		return o.([]int64)
	}
	fs := make([]*types.Var, u.NumFields())
	for i := range fs {
		fs[i] = u.Field(i)
	}
	o := sizes.Offsetsof(fs)
	st.p.offs.Store(u, o)
	return o
}

// zero value of a type as a register value
func (st *State) zero(T types.Type) Value {
	switch u := T.Underlying().(type) {
	case *types.Basic:
		switch {
		case u.Info()&types.IsBoolean != 0:
			return st.c.False
		case u.Info()&types.IsString != 0:
			return StrV{st.zero64, st.zero64}
		case u.Info()&types.IsFloat != 0:
			return FloatV(0)
		case u.Kind() == types.UntypedNil:
			return st.zero64
		}
		return st.c.Const(8*sizeof(T), 0)
	case *types.Pointer:
		return st.zero64
	case *types.Slice:
		return SliceV{st.zero64, st.zero64, st.zero64}
	case *types.Struct:
		a := make(Agg, u.NumFields())
		for i := range a {
			a[i] = st.zero(u.Field(i).Type())
		}
		return a
	case *types.Array:
		a := make(Agg, u.Len())
		for i := range a {
			a[i] = st.zero(u.Elem())
		}
		return a
	case *types.Interface:
		return IfaceV{}
	case *types.Signature:
		return (*Closure)(nil)
	case *types.Map:
		return MapRef(0)
	case *types.Chan:
		return ChanRef(0)
	case *types.Tuple:
		a := make(Agg, u.Len())
		for i := range a {
			a[i] = st.zero(u.At(i).Type())
		}
		return a
	}
	st.abort(abUnsupported, "zero of type "+T.String())
	return nil
}

// ---- strings and byte slices

func (st *State) constString(s string) StrV {
	if v, ok := st.strCache[s]; ok {
		return v
	}
	o := st.newObj(len(s), "const", "string const")
	o.ensure()
	o.owner = -1
	for i := 0; i < len(s); i++ {
		if s[i] != 0 {
			o.setByte(i, st.c.Const(8, uint64(s[i])))
		}
	}
	v := StrV{st.ptrTo(o, 0), st.c.Const(64, uint64(len(s)))}
	if len(s) == 0 {
		v.Ptr = st.zero64
	}
	st.strCache[s] = v
	return v
}

// concreteBytes returns the bytes of [ptr, ptr+n) if all are constants.
func (st *State) concreteBytes(ptr *Term, n *Term, what string) ([]byte, bool) {
	ln := int(st.constAddr(n, what+" length"))
	if ln == 0 {
		return nil, true
	}
	a := st.constAddr(ptr, what+" pointer")
	o, off := st.resolve(a, ln, what)
	out := make([]byte, ln)
	for i := 0; i < ln; i++ {
		b := st.byteAt(o, off+i)
		if !b.IsConst() {
			return nil, false
		}
		out[i] = byte(b.C)
	}
	return out, true
}

func (st *State) goString(v Value, what string) string {
	s := v.(StrV)
	b, ok := st.concreteBytes(s.Ptr, s.Len, what)
	if !ok {
		st.abort(abUnsupported, "symbolic string contents in "+what)
	}
	return string(b)
}

// byteTerms returns the byte terms of a slice/string region with concrete length.
func (st *State) byteTerms(ptr, n *Term, what string) []*Term {
	ln := int(st.constAddr(n, what+" length"))
	if ln == 0 {
		return nil
	}
	a := st.constAddr(ptr, what+" pointer")
	o, off := st.resolve(a, ln, what)
	st.noteAccess(o, off, ln, false)
	out := make([]*Term, ln)
	for i := range out {
		out[i] = st.byteAt(o, off+i)
	}
	return out
}

func floatBits(f float64, size int) uint64 {
	if size == 4 {
		return uint64(f32bits(float32(f)))
	}
	return f64bits(f)
}
