package symx

import (
	"sync/atomic"

	"golang.org/x/tools/go/ssa"
)

// worker-local exploration state: forked states wait on a local stack; decision prefixes are donated to the
// shared queue when other workers may be idle.
type worker struct {
	local    []*State
	q        *workQueue
	nworkers int
	forks    int
	shared   int
}

const maxLocalStack = 4096

// fork registers the alternative outcome `alt` of the decision being taken.
// Either a copy of the state is kept locally (it re-executes the current scheduler iteration with the decisions
// of this iteration replayed and `alt` forced), or the full decision prefix is donated to the shared queue, from
// where it is re-executed from the post-init base state.
func (st *State) fork(alt Dec) {
	w := st.w
	if w == nil || noClone || len(w.local) >= maxLocalStack || w.q.length() < w.nworkers {
		full := append(append(make([]Dec, 0, len(st.trace)+1), st.trace...), alt)
		st.newAlt(full)
		if w != nil {
			w.shared++
		}
		return
	}
	c := st.clone()
	c.prefix = append(append(make([]Dec, 0, len(st.trace)-st.stepStart+1), st.trace[st.stepStart:]...), alt)
	c.pos = 0
	c.trace = append(make([]Dec, 0, len(st.trace)+8), st.trace[:st.stepStart]...)
	c.restart = true
	c.resumed = true
	w.local = append(w.local, c)
	w.forks++
}

func newGen() int { return int(atomic.AddInt64(&genCounter, 1)) }

// clone copies everything a path can modify. Register values, terms, closures and boxed values are immutable and
// shared; objects, maps and channels are shared copy-on-write (neither copy owns them afterwards).
func (st *State) clone() *State {
	n := *st
	st.gen = newGen()
	n.gen = newGen()
	n.objs = append(make([]*Obj, 0, len(st.objs)+32), st.objs...)
	n.maps = append([]*MapObj(nil), st.maps...)
	n.chans = append([]*ChanObj(nil), st.chans...)
	n.iters = st.iters[:len(st.iters):len(st.iters)]
	n.iterPos = append([]int(nil), st.iterPos...)
	n.handles = st.handles[:len(st.handles):len(st.handles)]
	n.handleOf = copyMap(st.handleOf)
	n.typeHandles = copyMap(st.typeHandles)
	n.typeHandlesP = copyMap(st.typeHandlesP)
	n.strCache = copyMap(st.strCache)
	n.globals = copyMap(st.globals)
	n.varSet = copyMap(st.varSet)
	n.inputs = copyMap(st.inputs)
	n.symIn = copyMap(st.symIn)
	n.coinRun = copyMap(st.coinRun)
	n.coinIdx = copyMap(st.coinIdx)
	n.randName = copyMap(st.randName)
	n.backEdges = copyMap(st.backEdges)
	n.reached = copyMap(st.reached)
	n.userLive = copyMap(st.userLive)
	n.errMsgs = copyMap(st.errMsgs)
	n.sharedHandles = copyMap(st.sharedHandles)
	n.ghost = nil
	n.known = copyMap(st.known)
	// per-path statistics start from zero in the copy (they are summed over all executed states)
	n.fnCount = map[*ssa.Function]int{}
	n.stubCnt = map[string]int{}
	n.nInstr, n.nAllocs, n.asserts, n.assertsU = 0, 0, 0, 0
	n.instrBase = st.instrBase + st.nInstr
	n.pc = st.pc[:len(st.pc):len(st.pc)]
	n.vars = st.vars[:len(st.vars):len(st.vars)]
	n.sched = st.sched[:len(st.sched):len(st.sched)]
	n.pendA = st.pendA[:len(st.pendA):len(st.pendA)]
	n.pendMsg = st.pendMsg[:len(st.pendMsg):len(st.pendMsg)]
	n.synced = 0
	n.violation = nil
	// threads and their frames
	n.threads = make([]*Thread, len(st.threads))
	for i, t := range st.threads {
		n.threads[i] = t.clone()
		if t == st.cur {
			n.cur = n.threads[i]
		}
	}
	n.fs = st.fs.clone()
	return &n
}

func (t *Thread) clone() *Thread {
	n := *t
	n.fr = t.fr.clone()
	n.waits = append([]waitCase(nil), t.waits...)
	n.hits = copyMap(t.hits)
	if t.ihits != nil {
		n.ihits = copyMap(t.ihits)
	}
	return &n
}

func (fr *Frame) clone() *Frame {
	if fr == nil {
		return nil
	}
	n := *fr
	n.locals = append([]Value(nil), fr.locals...)
	n.defers = append([]deferred(nil), fr.defers...)
	n.caller = fr.caller.clone()
	return &n
}

func (fs *FS) clone() *FS {
	n := *fs
	n.files = make(map[string]*fsFile, len(fs.files))
	for k, f := range fs.files {
		n.files[k] = &fsFile{data: append([]*Term(nil), f.data...)}
	}
	n.dirs = copyMap(fs.dirs)
	n.open = make(map[int]*fsHandle, len(fs.open))
	for k, h := range fs.open {
		c := *h
		n.open[k] = &c
	}
	n.blobs = copyMap(fs.blobs)
	n.log = fs.log[:len(fs.log):len(fs.log)]
	return &n
}
