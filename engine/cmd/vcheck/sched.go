package main

import (
	"fmt"
	"go/ast"
	"go/parser"
	"go/token"
	"os"
	"path/filepath"
	"sort"
	"strconv"
	"strings"
)

// instrumentSchedule prepares a native replay of a recorded schedule: before every statement at which the
// schedule preempts a goroutine a call to the replay controller's hook is inserted (overlay copies only).
func instrumentSchedule(repo, verif, tmp string, d *replayDoc, ov map[string]string) error {
	type site struct{ line, col int }
	byFile := map[string][]site{}
	for _, e := range d.Sched {
		if e.Kind != "preempt" || e.Pos == "" {
			continue
		}
		parts := strings.Split(e.Pos, ":")
		if len(parts) < 3 {
			continue
		}
		file := strings.Join(parts[:len(parts)-2], ":")
		line, _ := strconv.Atoi(parts[len(parts)-2])
		col, _ := strconv.Atoi(parts[len(parts)-1])
		byFile[file] = append(byFile[file], site{line, col})
	}
	harnessPkgDir := filepath.Clean(filepath.Join(repo, d.Pkg))
	needSkiplistHook := false
	for file, sites := range byFile {
		src := file
		if o, ok := ov[file]; ok {
			src = o // already an overlay (harness file or shim)
		}
		b, err := os.ReadFile(src)
		if err != nil {
			return err
		}
		fset := token.NewFileSet()
		f, err := parser.ParseFile(fset, file, b, parser.ParseComments)
		if err != nil {
			return err
		}
		hook := "vHook"
		if filepath.Dir(file) != harnessPkgDir {
			if filepath.Base(filepath.Dir(file)) != "skiplist" {
				return fmt.Errorf("preemption site in unexpected package: %s", file)
			}
			hook = "vHookS"
			needSkiplistHook = true
		}
		// insertion offsets
		ins := map[int]string{}
		for _, s := range sites {
			var best ast.Stmt
			ast.Inspect(f, func(n ast.Node) bool {
				var list []ast.Stmt
				switch x := n.(type) {
				case *ast.BlockStmt:
					list = x.List
				case *ast.CaseClause:
					list = x.Body
				case *ast.CommClause:
					list = x.Body
				}
				for _, st := range list {
					p0, p1 := fset.Position(st.Pos()), fset.Position(st.End())
					after := s.line > p0.Line || (s.line == p0.Line && s.col >= p0.Column)
					before := s.line < p1.Line || (s.line == p1.Line && s.col <= p1.Column)
					if after && before {
						best = st // innermost wins because Inspect descends
					}
				}
				return true
			})
			if best == nil {
				return fmt.Errorf("no statement found at %s:%d:%d", file, s.line, s.col)
			}
			off := fset.Position(best.Pos()).Offset
			ins[off] = fmt.Sprintf("%s(%q); ", hook, fmt.Sprintf("%s:%d:%d", file, s.line, s.col))
		}
		offs := make([]int, 0, len(ins))
		for o := range ins {
			offs = append(offs, o)
		}
		sort.Sort(sort.Reverse(sort.IntSlice(offs)))
		out := string(b)
		for _, o := range offs {
			out = out[:o] + ins[o] + out[o:]
		}
		dst := filepath.Join(tmp, "sched_"+strings.ReplaceAll(strings.TrimPrefix(file, repo+"/"), "/", "_"))
		if err := os.WriteFile(dst, []byte(out), 0644); err != nil {
			return err
		}
		ov[file] = dst
	}
	if needSkiplistHook || d.Pkg != "./skiplist" {
		b, err := os.ReadFile(filepath.Join(verif, "harness", "native", "hook_skiplist.go.tmpl"))
		if err != nil {
			return err
		}
		dst := filepath.Join(tmp, "hook_skiplist.go")
		os.WriteFile(dst, b, 0644)
		ov[filepath.Join(repo, "skiplist", "zz_verif_hook.go")] = dst
		// the controller lives in the harness package; connect the skiplist hook to it
		conn := "package " + map[string]string{".": "nitro", "./nodetable": "nodetable"}[d.Pkg] + "\n\nimport \"github.com/couchbase/nitro/skiplist\"\n\nfunc init() { skiplist.VerifHook = vHook }\n"
		dst2 := filepath.Join(tmp, "hook_connect.go")
		os.WriteFile(dst2, []byte(conn), 0644)
		ov[filepath.Join(repo, d.Pkg, "zz_verif_hook_connect.go")] = dst2
	}
	return nil
}
