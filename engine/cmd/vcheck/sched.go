package main

import "fmt"

// instrumentSchedule prepares a native replay of a recorded schedule (token passing at the preemption
// sites). Filled in by the CONC replay support.
func instrumentSchedule(repo, tmp string, d *replayDoc, ov map[string]string) error {
	return fmt.Errorf("schedule replay not available")
}
