package main

import (
	"flag"
	"fmt"
	"os"
	"path/filepath"
	"runtime/debug"
	"runtime/pprof"
	"sort"
	"strconv"
	"strings"

	"verif/engine/symx"
)

func main() {
	repo := flag.String("repo", "/repo", "repository under test")
	verif := flag.String("verif", "/verif", "verif dir")
	run := flag.String("run", "", "dev mode: <pkgrel>:<Entry>")
	bounds := flag.String("b", "", "bounds k=v,k=v")
	workers := flag.Int("j", 8, "workers")
	preempt := flag.Int("preempt", -1, "preemption bound (-1 cooperative)")
	maxlevel := flag.Int("maxlevel", 1, "max consecutive coin successes")
	dev := flag.Int("dev", -1, "deviation budget at non-preemptive points (-1 unlimited)")
	named := flag.Bool("named", false, "preempt only between harness-named goroutines")
	schedfree := flag.Bool("schedfree", false, "free scheduling choice at blocking points")
	maxpaths := flag.Int("maxpaths", 0, "stop after n paths")
	solver := flag.String("solver", "z3", "solver")
	all := flag.Bool("all", false, "do not stop at first violation")
	cpuprof := flag.String("cpuprofile", "", "write cpu profile")
	flag.Parse()
	if os.Getenv("GOGC") == "" {
		debug.SetGCPercent(100)
	}
	if *cpuprof != "" {
		f, _ := os.Create(*cpuprof)
		pprof.StartCPUProfile(f)
		defer pprof.StopCPUProfile()
	}
	if *run != "" {
		parts := strings.SplitN(*run, ":", 2)
		cfg := &symx.Config{Entry: parts[1], Bounds: map[string]int{}, MaxInstr: 5_000_000, LoopBudget: 2000, Solver: *solver,
			TimeoutMs: 60000, Workers: *workers, Preempt: *preempt, MaxLevel: *maxlevel, StopOnFirst: !*all, MaxPaths: *maxpaths, NumCPU: 2, SchedFree: *schedfree, PreemptNamed: *named, Deviations: *dev}
		for _, kv := range strings.Split(*bounds, ",") {
			if kv == "" {
				continue
			}
			p := strings.SplitN(kv, "=", 2)
			v, _ := strconv.Atoi(p[1])
			cfg.Bounds[p[0]] = v
		}
		res, err := symx.RunHarness(*repo, *verif, parts[0], cfg)
		if err != nil {
			fmt.Fprintln(os.Stderr, "error:", err)
			os.Exit(2)
		}
		printResult(res)
		return
	}
	os.Exit(checkMain(*repo, *verif, flag.Args()))
}

func printResult(res *symx.Result) {
	fmt.Printf("paths=%d completed=%d infeasible=%d violations=%d asserts=%d inconclusive=%d instrs=%d wall=%s rounds=%d\n",
		res.Paths, res.Completed, res.Infeasible, len(res.Violations), res.Asserts, res.Inconclusive, res.Instrs, res.Wall, res.Rounds)
	fmt.Printf("solver: queries=%d sat=%d unsat=%d unknown=%d errors=%d time=%s max=%s\n", res.Solver.Queries, res.Solver.Sat, res.Solver.Unsat, res.Solver.Unknown, res.Solver.Errors, res.Solver.Time, res.Solver.MaxQuery)
	for k, v := range res.Unsupported {
		fmt.Printf("UNSUPPORTED x%d: %s\n", v, k)
	}
	for k, v := range res.BoundHits {
		fmt.Printf("BOUND x%d: %s\n", v, k)
	}
	for k, v := range res.Reached {
		fmt.Printf("reached %s: %d\n", k, v)
	}
	for i, v := range res.Violations {
		if i >= 3 {
			break
		}
		fmt.Printf("VIOLATION: %s\n%s", v.Msg, v.Stack)
		ks := make([]string, 0)
		for k := range v.Inputs {
			ks = append(ks, k)
		}
		sort.Strings(ks)
		for _, k := range ks {
			fmt.Printf("   %s = %d\n", k, v.Inputs[k])
		}
		for _, e := range v.Sched {
			fmt.Printf("   sched: %+v\n", e)
		}
	}
	for _, s := range res.Samples {
		fmt.Println("sample:", s)
	}
	_ = filepath.Join
}
