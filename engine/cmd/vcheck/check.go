package main

import (
	"encoding/json"
	"fmt"
	"os"
	"os/exec"
	"path/filepath"
	"regexp"
	"sort"
	"strings"
	"time"

	"verif/engine/symx"
)

// Run is one harness exploration belonging to a property check.
type Run struct {
	Name      string         `json:"name"`
	Pkg       string         `json:"pkg"` // ".", "./skiplist", "./nodetable"
	Entry     string         `json:"entry"`
	Tiers     []string       `json:"tiers"` // which tiers include this run
	Bounds    map[string]int `json:"bounds"`
	MaxLevel  int            `json:"maxlevel"`
	Preempt   *int           `json:"preempt,omitempty"`
	SchedFree bool           `json:"schedfree,omitempty"`
	Named     bool           `json:"named,omitempty"`
	Dev       *int           `json:"deviations,omitempty"`
	NumCPU    int            `json:"numcpu,omitempty"`
	MaxInstr  int            `json:"maxinstr,omitempty"`
	Loop      int            `json:"loop,omitempty"`
	Reach     []string       `json:"reach"` // vacuity witnesses that must be reached
	Note      string         `json:"note,omitempty"`
}

type CheckDef struct {
	Property    string   `json:"property"`
	Runs        []Run    `json:"runs"`
	Assumptions []string `json:"assumptions"`
}

type KnownFinding struct {
	Property string `json:"property"`
	ID       string `json:"id"`
	Status   string `json:"status"` // "open" or "fixed"
	Entry    string `json:"entry"`  // harness entry point
	Match    string `json:"match"`  // regexp on "<message> || <stack>"
	What     string `json:"what"`
	Commit   string `json:"commit,omitempty"`
}

func loadJSON(path string, v interface{}) error {
	b, err := os.ReadFile(path)
	if err != nil {
		return err
	}
	return json.Unmarshal(b, v)
}

func inTier(r Run, tier string) bool {
	for _, t := range r.Tiers {
		if t == tier {
			return true
		}
	}
	return false
}

type runReport struct {
	Run          string            `json:"run"`
	Entry        string            `json:"entry"`
	Bounds       map[string]int    `json:"bounds"`
	Paths        int               `json:"paths"`
	Completed    int               `json:"completed_paths"`
	Infeasible   int               `json:"infeasible_paths"`
	Asserts      int               `json:"assertions_checked"`
	Queries      int               `json:"solver_queries"`
	Unsat        int               `json:"unsat"`
	Sat          int               `json:"sat"`
	Unknown      int               `json:"unknown"`
	SolverS      float64           `json:"solver_time_s"`
	WallS        float64           `json:"wall_s"`
	Instrs       int               `json:"ssa_instructions_executed"`
	Reached      map[string]int    `json:"vacuity_witnesses_reached"`
	Unsupported  map[string]int    `json:"unsupported,omitempty"`
	BoundHits    map[string]int    `json:"bound_exceeded,omitempty"`
	Violations   int               `json:"violations"`
	Rounds       int               `json:"rounds"`
	MaxDecisions int               `json:"max_decisions_on_a_path"`
	Preempt      int               `json:"preemption_bound"`
	Extra        map[string]string `json:"extra,omitempty"`
}

func checkMain(repo, verif string, args []string) int {
	if len(args) < 1 {
		fmt.Fprintln(os.Stderr, "usage: vcheck [flags] <property> [quick|thorough] | vcheck <property> --replay <file>")
		return 2
	}
	prop := args[0]
	tier := os.Getenv("VERIF_TIER")
	if tier == "" {
		tier = "quick"
	}
	replayFile := ""
	for i := 1; i < len(args); i++ {
		switch args[i] {
		case "quick", "thorough":
			tier = args[i]
		case "--replay":
			if i+1 < len(args) {
				replayFile = args[i+1]
				i++
			}
		}
	}
	if replayFile != "" {
		ok, out := replayNative(repo, verif, replayFile)
		fmt.Print(out)
		if ok {
			fmt.Printf("VIOLATION property=%s replay=%s\n", prop, replayFile)
			return 1
		}
		return 0
	}
	var def CheckDef
	if err := loadJSON(filepath.Join(verif, "checks", prop+".json"), &def); err != nil {
		fmt.Fprintln(os.Stderr, "cannot load check definition:", err)
		return 2
	}
	var known []KnownFinding
	loadJSON(filepath.Join(verif, "known_findings.json"), &known)
	seed := 0
	fmt.Sscanf(os.Getenv("VERIF_SEED"), "%d", &seed)

	t0 := time.Now()
	var reports []runReport
	funcs := map[string]int{}
	stubs := map[string]int{}
	var samples []string
	totalQ, totalUnsat, totalPaths, totalAsserts, completed := 0, 0, 0, 0, 0
	solverS := 0.0
	inconclusive := []string{}
	newViolations := 0
	knownHits := map[string]bool{}
	replayed := 0
	var violLines []string
	os.MkdirAll(filepath.Join(verif, "replay"), 0755)

	for _, r := range def.Runs {
		if !inTier(r, tier) {
			continue
		}
		if only := os.Getenv("VERIF_ONLY_RUN"); only != "" && only != r.Name {
			continue
		}
		cfg := &symx.Config{Entry: r.Entry, Bounds: r.Bounds, MaxInstr: 20_000_000, LoopBudget: 5000, Solver: "z3", TimeoutMs: 60000,
			Workers: 8, Preempt: -1, MaxLevel: r.MaxLevel, StopOnFirst: false, NumCPU: 2, SchedFree: r.SchedFree, PreemptNamed: r.Named}
		if r.Preempt != nil {
			cfg.Preempt = *r.Preempt
		}
		cfg.Deviations = -1
		if r.Dev != nil {
			cfg.Deviations = *r.Dev
		}
		if r.NumCPU > 0 {
			cfg.NumCPU = r.NumCPU
		}
		if r.MaxInstr > 0 {
			cfg.MaxInstr = r.MaxInstr
		}
		if r.Loop > 0 {
			cfg.LoopBudget = r.Loop
		}
		if w := os.Getenv("VERIF_WORKERS"); w != "" {
			fmt.Sscanf(w, "%d", &cfg.Workers)
		}
		cfg.MaxViolations = 40
		res, err := symx.RunHarness(repo, verif, r.Pkg, cfg)
		if err != nil {
			fmt.Fprintf(os.Stderr, "run %s: %v\n", r.Name, err)
			inconclusive = append(inconclusive, r.Name+": "+err.Error())
			continue
		}
		rep := runReport{Run: r.Name, Entry: r.Entry, Bounds: r.Bounds, Paths: res.Paths, Completed: res.Completed, Infeasible: res.Infeasible,
			Asserts: res.Asserts, Queries: res.Solver.Queries, Unsat: res.Solver.Unsat, Sat: res.Solver.Sat, Unknown: res.Solver.Unknown + res.Solver.Errors,
			SolverS: res.Solver.Time.Seconds(), WallS: res.Wall.Seconds(), Instrs: res.Instrs, Reached: res.Reached, Unsupported: res.Unsupported,
			BoundHits: res.BoundHits, Violations: len(res.Violations), Rounds: res.Rounds, MaxDecisions: res.MaxTraceLen, Preempt: cfg.Preempt}
		reports = append(reports, rep)
		totalQ += res.Solver.Queries
		totalUnsat += res.Solver.Unsat
		totalPaths += res.Paths
		completed += res.Completed
		totalAsserts += res.Asserts
		solverS += res.Solver.Time.Seconds()
		for f, n := range res.Funcs {
			funcs[f] += n
		}
		for f, n := range res.Stubs {
			stubs[f] += n
		}
		for _, s := range res.Samples {
			if len(samples) < 12 {
				samples = append(samples, r.Name+": "+s)
			}
		}
		// budget-exhausted paths: a native run that hangs as well confirms non-termination
		hangConfirmed := false
		for i, bv := range res.BoundPaths {
			path := filepath.Join(verif, "replay", fmt.Sprintf("%s-%s-hang-%d.json", prop, r.Name, i+1))
			writeReplay(path, r, cfg, bv)
			ok, out := replayNative(repo, verif, path)
			replayed++
			if ok {
				if kf := matchKnown(known, prop, r.Entry, bv); kf != nil && kf.Status == "open" {
					if !knownHits[kf.ID] {
						knownHits[kf.ID] = true
						fmt.Printf("KNOWN-FINDING: property=%s %s (%s)\n", prop, kf.What, kf.ID)
					}
					continue
				}
				hangConfirmed = true
				newViolations++
				fmt.Printf("counterexample (%s): %s\n%s", r.Name, bv.Msg, bv.Stack)
				fmt.Printf("VIOLATION property=%s replay=%s\n", prop, path)
				_ = out
				break
			}
		}
		_ = hangConfirmed
		if !res.Clean() {
			for k := range res.Unsupported {
				inconclusive = append(inconclusive, r.Name+": unsupported: "+k)
			}
			for k := range res.BoundHits {
				inconclusive = append(inconclusive, r.Name+": bound exceeded: "+k)
			}
			if res.Solver.Unknown+res.Solver.Errors+res.Inconclusive > 0 {
				inconclusive = append(inconclusive, fmt.Sprintf("%s: %d solver unknown/error results", r.Name, res.Solver.Unknown+res.Solver.Errors+res.Inconclusive))
			}
			if res.Truncated {
				inconclusive = append(inconclusive, r.Name+": exploration truncated")
			}
		}
		if len(res.Violations) == 0 {
			for _, l := range r.Reach {
				if res.Reached[l] == 0 {
					inconclusive = append(inconclusive, fmt.Sprintf("%s: vacuity witness %q not reached", r.Name, l))
				}
			}
		}
		// translator validation: passing paths found by the engine must also pass on the real build
		if len(res.Violations) == 0 && os.Getenv("VERIF_NO_WITNESS") == "" {
			nw := 0
			for i := len(res.Witnesses) - 1; i >= 0 && nw < 1; i-- {
				wv := res.Witnesses[i]
				path := filepath.Join(verif, "replay", fmt.Sprintf("%s-%s-witness.json", prop, r.Name))
				writeReplay(path, r, cfg, wv)
				failed, out := replayNative(repo, verif, path)
				nw++
				switch {
				case failed:
					replayed++
					fmt.Printf("TRANSLATOR-MISMATCH property=%s run=%s: a path the engine passes fails natively (replay=%s)\n%s\n", prop, r.Name, path, tailLines(out, 12))
					inconclusive = append(inconclusive, r.Name+": engine/native mismatch on a passing path")
				case strings.Contains(out, "ok  \t"):
					replayed++
				default:
					// the native run neither passed nor failed the harness (build problem, time-out under load):
					// not counted as validated, not held against the check
					fmt.Printf("note: witness replay of run %s did not complete natively\n", r.Name)
				}
			}
		}
		// violations: dedupe by signature, classify, replay
		seen := map[string]bool{}
		for _, v := range res.Violations {
			sig := violationSig(v)
			if seen[sig] {
				continue
			}
			seen[sig] = true
			kf := matchKnown(known, prop, r.Entry, v)
			path := filepath.Join(verif, "replay", fmt.Sprintf("%s-%s-%d.json", prop, r.Name, len(seen)))
			writeReplay(path, r, cfg, v)
			ok, out := replayNative(repo, verif, path)
			replayed++
			if kf != nil && kf.Status == "open" {
				if !knownHits[kf.ID] {
					knownHits[kf.ID] = true
					fmt.Printf("KNOWN-FINDING: property=%s %s (%s)\n", prop, kf.What, kf.ID)
				}
				continue
			}
			if ok {
				newViolations++
				line := fmt.Sprintf("VIOLATION property=%s replay=%s", prop, path)
				violLines = append(violLines, line)
				fmt.Printf("counterexample (%s): %s\n%s", r.Name, v.Msg, v.Stack)
				fmt.Println(line)
			} else {
				fmt.Printf("UNCONFIRMED-COUNTEREXAMPLE property=%s run=%s: %s (native replay did not reproduce; replay=%s)\n%s\n", prop, r.Name, v.Msg, path, tailLines(out, 15))
				inconclusive = append(inconclusive, r.Name+": unconfirmed counterexample: "+v.Msg)
			}
		}
	}
	wall := time.Since(t0).Seconds()

	// evidence
	fnList := make([]string, 0, len(funcs))
	for f := range funcs {
		if strings.Contains(f, "couchbase/nitro") && !strings.Contains(f, ".v") && !strings.Contains(f, ".H_") {
			fnList = append(fnList, f)
		}
	}
	sort.Strings(fnList)
	depList := []string{}
	for f := range funcs {
		if !strings.Contains(f, "couchbase/nitro") {
			depList = append(depList, f)
		}
	}
	sort.Strings(depList)
	stubList := make([]string, 0, len(stubs))
	for f := range stubs {
		if !strings.Contains(f, "couchbase/nitro") {
			stubList = append(stubList, f)
		}
	}
	sort.Strings(stubList)
	if len(samples) == 0 {
		samples = []string{"no completed path"}
	}
	ev := map[string]interface{}{
		"property_id": prop,
		"tier":        tier,
		"seed":        seed,
		"level":       "model_checking",
		"wall_s":      wall,
		"violations":  newViolations,
		"assumptions": def.Assumptions,
		"coverage": map[string]interface{}{
			"evaluations":                   totalQ,
			"distinct_nontrivial":           completed,
			"rule":                          "one case = one feasible path class of the harness (a distinct sequence of fork decisions: symbolic opcodes, comparison outcomes, coin flips, schedule choices) executed to the end over the real SSA with symbolic data; evaluations = SMT queries issued; every assertion on every path is discharged by an unsat answer to pc ∧ ¬assert",
			"samples":                       samples,
			"states":                        totalPaths,
			"transitions":                   sumInstrs(reports),
			"traces_validated_against_impl": replayed,
			"exhaustive":                    false,
			"technique":                     "bounded symbolic execution of go/ssa with z3 (path forking, byte-precise memory)",
			"functions_encoded":             fnList,
			"dependency_functions_encoded":  depList,
			"stubs_used":                    stubList,
			"runs":                          reports,
			"queries_unsat":                 totalUnsat,
			"solver_time_s":                 solverS,
			"solver":                        "z3 4.8.12 (one persistent process per worker, push/pop)",
			"assertions_checked":            totalAsserts,
			"inconclusive":                  inconclusive,
			"known_findings_hit":            keys(knownHits),
		},
	}
	os.MkdirAll(filepath.Join(verif, "evidence"), 0755)
	b, _ := json.MarshalIndent(ev, "", " ")
	os.WriteFile(filepath.Join(verif, "evidence", prop+".json"), b, 0644)

	fmt.Printf("check %s tier=%s: runs=%d paths=%d queries=%d (unsat %d) asserts=%d wall=%.1fs new_violations=%d known=%d inconclusive=%d\n",
		prop, tier, len(reports), totalPaths, totalQ, totalUnsat, totalAsserts, wall, newViolations, len(knownHits), len(inconclusive))
	if newViolations > 0 {
		return 1
	}
	if len(inconclusive) > 0 {
		for _, s := range inconclusive {
			fmt.Println("INCONCLUSIVE:", s)
		}
		return 2
	}
	return 0
}

func hasPreempt(ev []symx.SchedEvent) bool {
	for _, e := range ev {
		if e.Kind == "preempt" {
			return true
		}
	}
	return false
}

func sumInstrs(rs []runReport) int {
	n := 0
	for _, r := range rs {
		n += r.Instrs
	}
	if n == 0 {
		n = 1
	}
	return n
}

func keys(m map[string]bool) []string {
	ks := []string{}
	for k := range m {
		ks = append(ks, k)
	}
	sort.Strings(ks)
	return ks
}

func tailLines(s string, n int) string {
	ls := strings.Split(strings.TrimSpace(s), "\n")
	if len(ls) > n {
		ls = ls[len(ls)-n:]
	}
	return strings.Join(ls, "\n")
}

var posRe = regexp.MustCompile(`zz_verif_[a-z0-9_]+\.go:\d+`)

func violationSig(v *symx.Violation) string {
	return v.Msg + "|" + strings.Join(posRe.FindAllString(v.Stack, 2), ",")
}

func matchKnown(known []KnownFinding, prop, entry string, v *symx.Violation) *KnownFinding {
	text := v.Msg + " || " + strings.ReplaceAll(v.Stack, "\n", " ")
	for i := range known {
		k := &known[i]
		if k.Property != prop || (k.Entry != "" && k.Entry != entry) {
			continue
		}
		if ok, _ := regexp.MatchString(k.Match, text); ok {
			return k
		}
	}
	return nil
}

type replayDoc struct {
	Property string            `json:"property"`
	Run      string            `json:"run"`
	Pkg      string            `json:"pkg"`
	Entry    string            `json:"entry"`
	Message  string            `json:"message"`
	Kind     string            `json:"kind"`
	Stack    string            `json:"stack"`
	Inputs   map[string]uint64 `json:"inputs"`
	Bounds   map[string]int    `json:"bounds"`
	Sched    []symx.SchedEvent `json:"sched"`
}

func writeReplay(path string, r Run, cfg *symx.Config, v *symx.Violation) {
	d := replayDoc{Run: r.Name, Pkg: r.Pkg, Entry: r.Entry, Message: v.Msg, Kind: v.Kind, Stack: v.Stack, Inputs: v.Inputs, Bounds: r.Bounds, Sched: v.Sched}
	b, _ := json.MarshalIndent(d, "", " ")
	os.WriteFile(path, b, 0644)
}

// replayNative runs the harness natively (go test -overlay) with the recorded inputs. It reports whether the
// real build fails (assertion, panic, fault, or a hang for deadlock-type counterexamples).
func replayNative(repo, verif, replayPath string) (bool, string) {
	var d replayDoc
	if err := loadJSON(replayPath, &d); err != nil {
		return false, "cannot read replay file: " + err.Error()
	}
	hdir := map[string]string{".": "nitro", "./skiplist": "skiplist", "./nodetable": "nodetable"}[d.Pkg]
	tmp, err := os.MkdirTemp("", "verifreplay")
	if err != nil {
		return false, err.Error()
	}
	defer os.RemoveAll(tmp)
	ov := map[string]string{}
	files, _ := filepath.Glob(filepath.Join(verif, "harness", hdir, "*.go"))
	for _, f := range files {
		ov[filepath.Join(repo, d.Pkg, "zz_verif_"+filepath.Base(f))] = f
	}
	gen := func(tmpl, out string, repl ...string) {
		b, _ := os.ReadFile(filepath.Join(verif, "harness", "native", tmpl))
		s := strings.Replace(string(b), "package PKG", "package "+hdir, 1)
		for i := 0; i+1 < len(repl); i += 2 {
			s = strings.ReplaceAll(s, repl[i], repl[i+1])
		}
		p := filepath.Join(tmp, out)
		os.WriteFile(p, []byte(s), 0644)
		ov[filepath.Join(repo, d.Pkg, "zz_verif_"+out)] = p
	}
	gen("api_native.go.tmpl", "api_native.go")
	gen("replay_test.go.tmpl", "replay_test.go", "ENTRY", d.Entry)
	if d.Pkg == "." {
		// nitro.go: the number of backup shards follows the engine's runtime.NumCPU stub; for the
		// file-system fault harnesses the os / ioutil mutations of file.go and nitro.go go through the shims
		names := []string{"nitro.go"}
		fsShim := strings.HasPrefix(d.Entry, "H_C12")
		if fsShim {
			names = append(names, "file.go")
		}
		for _, name := range names {
			b, err := os.ReadFile(filepath.Join(repo, name))
			if err != nil {
				return false, err.Error()
			}
			s := strings.ReplaceAll(string(b), "runtime.NumCPU()", "vNumCPU()")
			if fsShim {
				for _, r := range [][2]string{{"os.OpenFile(", "vOsOpenFile("}, {"os.Open(", "vOsOpen("}, {"os.MkdirAll(", "vOsMkdirAll("},
					{"ioutil.WriteFile(", "vIoWriteFile("}, {"*os.File", "*vFile"}} {
					s = strings.ReplaceAll(s, r[0], r[1])
				}
				s += "\nvar _ = os.Getpid\n"
				if name == "nitro.go" {
					s += "var _ = ioutil.Discard\n"
				}
			}
			out := filepath.Join(tmp, "shim_"+name)
			os.WriteFile(out, []byte(s), 0644)
			ov[filepath.Join(repo, name)] = out
		}
	}
	if hasPreempt(d.Sched) {
		if err := instrumentSchedule(repo, verif, tmp, &d, ov); err != nil {
			return false, "cannot instrument schedule: " + err.Error()
		}
	}
	ovj, _ := json.Marshal(map[string]interface{}{"Replace": ov})
	ovPath := filepath.Join(tmp, "overlay.json")
	os.WriteFile(ovPath, ovj, 0644)
	abs, _ := filepath.Abs(replayPath)
	cmd := exec.Command("go", "test", "-vet=off", "-count=1", "-overlay", ovPath, "-run", "^TestVerifReplay$", "-timeout", "40s", d.Pkg)
	cmd.Dir = repo
	cmd.Env = append(os.Environ(), "GOFLAGS=-mod=mod", "GOPROXY=off", "GOSUMDB=off", "GOTOOLCHAIN=local", "VERIF_REPLAY="+abs)
	out, err := cmd.CombinedOutput()
	s := string(out)
	if err == nil {
		return false, s
	}
	switch {
	case strings.Contains(s, "VERIF-ASSUME-FAILED"), strings.Contains(s, "VERIF-REPLAY-ERROR"), strings.Contains(s, "[build failed]"), strings.Contains(s, "[setup failed]"):
		return false, s
	case strings.Contains(s, "VERIF-ASSERT-FAILED"):
		return true, s
	case strings.Contains(s, "test timed out"):
		return strings.Contains(d.Message, "deadlock") || strings.Contains(d.Message, "hang") || strings.Contains(d.Message, "terminate"), s
	case strings.Contains(s, "panic:") || strings.Contains(s, "fatal error:") || strings.Contains(s, "SIGSEGV"):
		return true, s
	}
	return false, s
}
