package main

func checkMain(repo, verif string, args []string) int { return 2 }
