package nodetable

import "unsafe"

// H_C20_table: the node table against a map model, for every hash function over the key universe.
// Keys are 1-byte strings k0..k(K-1); the hash of key i is a symbolic uint32 h[i] (so all-collide,
// few buckets and injective are all solutions). Stored pointers point to records carrying their key.
type vRec struct {
	key byte
	gen int
}

func H_C20_table() {
	nkeys := vBound("keys")
	nops := vBound("ops")
	var hv [4]uint32
	for i := 0; i < nkeys; i++ {
		hv[i] = vU32("hash", i)
	}
	hash := func(k []byte) uint32 { return hv[int(k[0])] }
	eq := func(p unsafe.Pointer, k []byte) bool { return (*vRec)(p).key == k[0] }
	nt := New(hash, eq)
	var model [4]*vRec // reference map: key -> pointer
	count := 0
	for i := 0; i < nops; i++ {
		k := vRange("key", i, 0, nkeys-1)
		key := []byte{byte(k)}
		switch vChoice("op", i, 3) {
		case 0: // Update
			rec := &vRec{key: byte(k), gen: i}
			upd, old := nt.Update(key, unsafe.Pointer(rec))
			vAssert(upd == (model[k] != nil), "Update reports presence")
			vAssert(old == unsafe.Pointer(model[k]), "Update returns previous pointer")
			if model[k] == nil {
				count++
			}
			model[k] = rec
		case 1: // Remove
			ok, p := nt.Remove(key)
			vAssert(ok == (model[k] != nil), "Remove reports presence")
			vAssert(p == unsafe.Pointer(model[k]), "Remove returns stored pointer")
			if model[k] != nil {
				count--
				vReach("remove-present")
			}
			model[k] = nil
		case 2: // Get
			p := nt.Get(key)
			vAssert(p == unsafe.Pointer(model[k]), "Get returns latest pointer")
		}
		vAssert(nt.ItemsCount() == int64(count), "ItemsCount equals number of keys")
		vAssert(nt.MemoryInUse() == int64(approxItemSize*count), "MemoryInUse tracks count")
	}
	// final: every key reads back
	for k := 0; k < nkeys; k++ {
		p := nt.Get([]byte{byte(k)})
		vAssert(p == unsafe.Pointer(model[k]), "final Get agrees with model")
	}
	vReach("c20-table-done")
}

// H_C20_ptr: the pointer/conflict-bit packing, for every 63-bit pointer value and both flag values:
// decoding returns the pointer, the flag is readable in bit 63, and re-encoding with the other flag changes
// nothing but that bit (one lemma, all values decided by the solver).
func H_C20_ptr() {
	v := uint64(vU32("hi", 0))<<32 | uint64(vU32("lo", 0))
	vAssume(v>>63 == 0) // user-space pointers: bit 63 is free, which is what the packing relies on
	p := unsafe.Pointer(uintptr(v))
	for _, f := range [2]bool{false, true} {
		e := encodePointer(p, f)
		vAssert(decodePointer(e) == p, "decodePointer(encodePointer(p, f)) == p")
		vAssert((e>>63 == 1) == f, "the conflict flag is bit 63 of the encoded word")
		vAssert(uint64(uintptr(decodePointer(e))) == v, "no other bit is disturbed")
		e2 := encodePointer(decodePointer(e), !f)
		vAssert(e2^e == 1<<63, "re-encoding with the other flag flips exactly bit 63")
	}
	vReach("c20-ptr-done")
}
