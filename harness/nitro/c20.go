package nitro

import (
	"github.com/couchbase/nitro/skiplist"
	"unsafe"
)

// H_C20_list: NodeList against a slice model (Add at head, Remove first equal key, Keys in list order).
func H_C20_list() {
	db := New()
	nops := vBound("ops")
	var model []*skiplist.Node
	var keys []byte
	l := NewNodeList(nil)
	mk := func(k byte) *skiplist.Node {
		itm := db.newItem([]byte{k}, false)
		n := db.store.NewNode(0)
		n.SetItem(unsafe.Pointer(itm))
		return n
	}
	for i := 0; i < nops; i++ {
		switch vChoice("op", i, 2) {
		case 0:
			k := vByte("key", i)
			n := mk(k)
			l.Add(n)
			model = append([]*skiplist.Node{n}, model...)
			keys = append([]byte{k}, keys...)
		case 1:
			k := vByte("key", i)
			got := l.Remove([]byte{k})
			idx := -1
			for j := range keys {
				if keys[j] == k {
					idx = j
					break
				}
			}
			if idx < 0 {
				vAssert(got == nil, "Remove of absent key returns nil")
			} else {
				vAssert(got == model[idx], "Remove returns first node with equal key")
				model = append(model[:idx:idx], model[idx+1:]...)
				keys = append(keys[:idx:idx], keys[idx+1:]...)
				vReach("list-remove-present")
			}
		}
		if len(model) == 0 {
			vAssert(l.Head() == nil, "Head of empty list")
		} else {
			vAssert(l.Head() == model[0], "Head is first")
		}
		ks := l.Keys()
		vAssert(len(ks) == len(keys), "Keys length")
		for j := range ks {
			if j < len(keys) {
				vAssert(len(ks[j]) == 1 && ks[j][0] == keys[j], "Keys in list order")
			}
		}
	}
	vReach("c20-list-done")
}
