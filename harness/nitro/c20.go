package nitro

import (
	"github.com/couchbase/nitro/skiplist"
	"unsafe"
)

// H_C20_list: NodeList against a slice model (Add at head, Remove first equal key, Keys in list order).
func H_C20_list() {
	db := New()
	nops := vBound("ops")
	var model []*skiplist.Node
	var keys []byte
	l := NewNodeList(nil)
	mk := func(k byte) *skiplist.Node {
		itm := db.newItem([]byte{k}, false)
		n := db.store.NewNode(0)
		n.SetItem(unsafe.Pointer(itm))
		return n
	}
	var lastRemoved *skiplist.Node
	var lastRemovedKey byte
	for i := 0; i < nops; i++ {
		switch vChoice("op", i, 3) {
		case 0:
			k := vByte("key", i)
			n := mk(k)
			if lastRemoved != nil && vChoice("stale", i, 2) == 1 {
				// the link field is shared with other lists (garbage lists): a node may arrive with a stale link
				n.SetLink(lastRemoved)
			}
			l.Add(n)
			model = append([]*skiplist.Node{n}, model...)
			keys = append([]byte{k}, keys...)
		case 2: // add a node again that was removed earlier (its own link was never cleared)
			if lastRemoved == nil {
				vAssume(false)
			}
			l.Add(lastRemoved)
			model = append([]*skiplist.Node{lastRemoved}, model...)
			keys = append([]byte{lastRemovedKey}, keys...)
			lastRemoved = nil
			vReach("list-readd-removed-node")
		case 1:
			k := vByte("key", i)
			got := l.Remove([]byte{k})
			idx := -1
			for j := range keys {
				if keys[j] == k {
					idx = j
					break
				}
			}
			if idx < 0 {
				vAssert(got == nil, "Remove of absent key returns nil")
			} else {
				vAssert(got == model[idx], "Remove returns first node with equal key")
				lastRemoved, lastRemovedKey = got, k
				model = append(model[:idx:idx], model[idx+1:]...)
				keys = append(keys[:idx:idx], keys[idx+1:]...)
				vReach("list-remove-present")
			}
		}
		if len(model) == 0 {
			vAssert(l.Head() == nil, "Head of empty list")
		} else {
			vAssert(l.Head() == model[0], "Head is first")
		}
		ks := l.Keys()
		vAssert(len(ks) == len(keys), "Keys length")
		for j := range ks {
			if j < len(keys) {
				vAssert(len(ks[j]) == 1 && ks[j][0] == keys[j], "Keys in list order")
			}
		}
	}
	vReach("c20-list-done")
}
