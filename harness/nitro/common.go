package nitro

import (
	"unsafe"

	"github.com/couchbase/nitro/skiplist"
)

// ---------------------------------------------------------------------------------------------
// Common pieces of the nitro-level harnesses.
//
// Items: with the default comparator an item is one symbolic byte (the key). With the key-only
// comparator CompareKV an item is KVToBytes([k],[v]) with one symbolic key byte and one symbolic
// value byte, so "equal keys, different bytes" is in range.

type vCfgT struct {
	kv bool
	mm bool
}

func vConfig() (Config, vCfgT) {
	c := vCfgT{kv: vBound("kv") == 1, mm: vBound("mm") == 1}
	cfg := DefaultConfig()
	if c.kv {
		cfg.SetKeyComparator(CompareKV)
	}
	if c.mm {
		cfg.UseMemoryMgmt(func(n int) unsafe.Pointer { return vAlloc(n) }, func(p unsafe.Pointer) { vFree(p) })
	}
	return cfg, c
}

// vItemCtr numbers the item() calls of a path (for the forked value length in key-only-comparator mode)
var vItemCtr int

func (c vCfgT) item(k, v byte) []byte {
	if c.kv {
		// the value is 1..vlens bytes long (forked per call), so equal keys come with different total lengths
		vl := 1
		if n := vBound("vlens"); n > 1 {
			vl = 1 + vChoice("vlen", vItemCtr, n)
			vItemCtr++
		}
		val := make([]byte, vl)
		for i := range val {
			val[i] = v
		}
		return KVToBytes([]byte{k}, val)
	}
	// default comparator (the whole item is the key): with vlens > 1 odd keys are two bytes long {k, 1}, even keys one
	// byte {k}, so items of different lengths are in play while the key byte still identifies and orders the item
	if vBound("vlens") > 1 && k%2 == 1 {
		return []byte{k, 1}
	}
	return []byte{k}
}

// val: the value the model remembers (no value byte exists with the default comparator)
func (c vCfgT) val(v byte) int {
	if c.kv {
		return int(v)
	}
	return 0
}

// key/value of an item's bytes as the harness encodes them
func (c vCfgT) decode(bs []byte) (k, v int, ok bool) {
	if c.kv {
		if len(bs) < 4 || bs[0] != 1 || bs[1] != 0 {
			return 0, 0, false
		}
		for i := 4; i < len(bs); i++ {
			if bs[i] != bs[3] {
				return 0, 0, false
			}
		}
		return int(bs[2]), int(bs[3]), true
	}
	if vBound("vlens") > 1 {
		if len(bs) == 2 && bs[1] == 1 && bs[0]%2 == 1 {
			return int(bs[0]), 0, true
		}
		if len(bs) == 1 && bs[0]%2 == 0 {
			return int(bs[0]), 0, true
		}
		return 0, 0, false
	}
	if len(bs) != 1 {
		return 0, 0, false
	}
	return int(bs[0]), 0, true
}

// vSetModel: reference set keyed by the comparator key, remembering the stored bytes (value).
type vSetModel struct {
	key     [12]int
	val     [12]int
	present [12]bool
	n       int
}

func (m *vSetModel) has(k int) bool {
	r := false
	for i := 0; i < m.n; i++ {
		r = vOr(r, vAnd(m.present[i], m.key[i] == k))
	}
	return r
}

func (m *vSetModel) hasKV(k, v int) bool {
	r := false
	for i := 0; i < m.n; i++ {
		r = vOr(r, vAnd(m.present[i], vAnd(m.key[i] == k, m.val[i] == v)))
	}
	return r
}

func (m *vSetModel) put(k, v int) bool {
	ex := m.has(k)
	m.key[m.n], m.val[m.n] = k, v
	m.present[m.n] = vNot(ex)
	m.n++
	return vNot(ex)
}

func (m *vSetModel) del(k int) bool {
	ex := m.has(k)
	for i := 0; i < m.n; i++ {
		m.present[i] = vAnd(m.present[i], vNot(m.key[i] == k))
	}
	return ex
}

func (m *vSetModel) count() int {
	c := 0
	for i := 0; i < m.n; i++ {
		c += vB2I(m.present[i])
	}
	return c
}

// vScanCheck scans snapshot s with a fresh iterator and compares with its ghost record g.
func vScanCheck(db *Nitro, c vCfgT, s *Snapshot, g *vSetModel, what string) {
	it := db.NewIterator(s)
	if it == nil {
		vFail("NewIterator returned nil for an open snapshot")
		return
	}
	if r := vBound("scanrate"); r > 0 {
		it.SetRefreshRate(r) // scans must not depend on the refresh rate (Visitor / StoreToDisk use 10000)
	}
	cnt := 0
	last := -1
	for it.SeekFirst(); it.Valid(); it.Next() {
		k, v, ok := c.decode(it.Get())
		vAssert(ok, "scan: item bytes have the stored shape")
		vAssert(k > last, "scan: strictly ascending by key")
		vAssert(g.hasKV(k, v), "scan: item (key and bytes) was live when the snapshot was taken")
		last = k
		cnt++
		if cnt > 12 {
			vFail("scan: more items than ever inserted")
		}
	}
	it.Close()
	vAssert(cnt == g.count(), "scan: every item live at snapshot time is delivered")
	vAssert(s.Count() == int64(g.count()), "Count() equals number of items live at snapshot time")
}

func vWriters(db *Nitro, n int) []*Writer {
	ws := make([]*Writer, n)
	names := [3]string{"w0", "w1", "w2"}
	for i := 0; i < n; i++ {
		ws[i] = db.NewWriter()
		ws[i].rand = vRand(names[i])
	}
	return ws
}

var _ = skiplist.MaxLevel
