package nitro

import "github.com/couchbase/nitro/skiplist"

// H_C02_seq: sequential set semantics. Symbolic sequences of Put2/Delete/Delete2/DeleteNode/GetNode/
// NewSnapshot/Close through two writers from one goroutine, against the reference set.
func H_C02_seq() {
	cfg, c := vConfig()
	db := NewWithConfig(cfg)
	nw := vBound("writers")
	ws := vWriters(db, nw)
	nops := vBound("ops")
	var model vSetModel
	var snaps [8]*Snapshot
	var ghosts [8]vSetModel
	var open [8]bool
	ns := 0
	// node handles from successful Put2 in the current epoch history
	var hnode [12]*skiplist.Node
	var hkey [12]int
	var hslot [12]int // model slot of the version the handle refers to
	nh := 0
	for i := 0; i < nops; i++ {
		w := ws[vChoice("w", i, nw)]
		switch vChoice("op", i, 7) {
		case 0: // Put2
			k, v := vByte("key", i), vByte("val", i)
			n := w.Put2(c.item(k, v))
			exp := model.put(int(k), c.val(v))
			vAssert((n != nil) == exp, "Put succeeds iff no live item with an equal key exists")
			if n != nil {
				hnode[nh], hkey[nh], hslot[nh] = n, int(k), model.n-1
				nh++
			} else {
				vReach("put-rejected")
			}
		case 1: // Delete
			k := vByte("key", i)
			ok := w.Delete(c.item(k, vByte("val", i)))
			vAssert(ok == model.del(int(k)), "Delete succeeds iff a live item with an equal key exists")
			if ok {
				vReach("delete-live")
			}
		case 2: // GetNode
			k := vByte("key", i)
			n := w.GetNode(c.item(k, vByte("val", i)))
			vAssert((n != nil) == model.has(int(k)), "lookup finds an item iff it is live")
			if n != nil {
				kk, vv, ok := c.decode((*Item)(n.Item()).Bytes())
				vAssert(ok && kk == int(k), "lookup returns an item with the requested key")
				vAssert(model.hasKV(kk, vv), "lookup returns the live item's bytes")
			}
		case 3: // Delete2 (returns node too)
			k := vByte("key", i)
			n, ok := w.Delete2(c.item(k, vByte("val", i)))
			vAssert(ok == model.del(int(k)), "Delete2 succeeds iff a live item exists")
			vAssert(!ok || n != nil, "Delete2 returns the node it deleted")
		case 6: // DeleteNode through a handle obtained from an earlier successful Put2
			if nh == 0 {
				vAssume(false)
			}
			h := vRange("handle", i, 0, nh-1)
			// only handles of versions that are still live: what DeleteNode does with a stale handle is outside
			// C02 (and in user-memory mode the node may already have been returned to the allocator)
			vAssume(model.present[hslot[h]])
			ok := w.DeleteNode(hnode[h])
			vAssert(ok, "DeleteNode of a live version succeeds")
			model.present[hslot[h]] = false
			vReach("deletenode-live")
		case 4: // NewSnapshot
			if ns >= 8 {
				vAssume(false)
			}
			s, err := db.NewSnapshot()
			vAssert(err == nil && s != nil, "NewSnapshot succeeds")
			vAssert(db.ItemsCount() == int64(model.count()), "ItemsCount equals reference set size")
			snaps[ns], ghosts[ns], open[ns] = s, model, true
			vScanCheck(db, c, s, &ghosts[ns], "new snapshot")
			ns++
		case 5: // Close some open snapshot
			if ns == 0 {
				vAssume(false)
			}
			j := vRange("snap", i, 0, ns-1)
			if !open[j] {
				vAssume(false)
			}
			snaps[j].Close()
			open[j] = false
			vReach("snapshot-closed")
		}
	}
	// the next snapshot's content and Count() equal the reference set
	s, err := db.NewSnapshot()
	vAssert(err == nil && s != nil, "final NewSnapshot succeeds")
	vAssert(db.ItemsCount() == int64(model.count()), "final ItemsCount equals reference set size")
	g := model
	vScanCheck(db, c, s, &g, "final snapshot")
	// snapshots still open are unchanged (C01 overlap, cheap here)
	for j := 0; j < ns; j++ {
		if open[j] {
			vScanCheck(db, c, snaps[j], &ghosts[j], "older open snapshot")
		}
	}
	vReach("c02-done")
}
