package nitro

import "github.com/couchbase/nitro/skiplist"

// H_C02_seq: sequential set semantics. Symbolic sequences of Put2/Delete/Delete2/DeleteNode/GetNode/
// NewSnapshot/Close through two writers from one goroutine, against the reference set.
func H_C02_seq() {
	cfg, c := vConfig()
	db := NewWithConfig(cfg)
	nw := vBound("writers")
	ws := vWriters(db, nw)
	nops := vBound("ops")
	var model vSetModel
	var snaps [8]*Snapshot
	var ghosts [8]vSetModel
	var open [8]bool
	ns := 0
	// node handles from successful Put2 in the current epoch history
	var hnode [12]*skiplist.Node
	var hkey [12]int
	var hslot [12]int // model slot of the version the handle refers to
	nh := 0
	for i := 0; i < nops; i++ {
		w := ws[vChoice("w", i, nw)]
		switch vChoice("op", i, 7) {
		case 0: // Put2
			k, v := vByte("key", i), vByte("val", i)
			n := w.Put2(c.item(k, v))
			exp := model.put(int(k), c.val(v))
			vAssert((n != nil) == exp, "Put succeeds iff no live item with an equal key exists")
			if n != nil {
				hnode[nh], hkey[nh], hslot[nh] = n, int(k), model.n-1
				nh++
			} else {
				vReach("put-rejected")
			}
		case 1: // Delete
			k := vByte("key", i)
			ok := w.Delete(c.item(k, vByte("val", i)))
			vAssert(ok == model.del(int(k)), "Delete succeeds iff a live item with an equal key exists")
			if ok {
				vReach("delete-live")
			}
		case 2: // GetNode
			k := vByte("key", i)
			n := w.GetNode(c.item(k, vByte("val", i)))
			vAssert((n != nil) == model.has(int(k)), "lookup finds an item iff it is live")
			if n != nil {
				kk, vv, ok := c.decode((*Item)(n.Item()).Bytes())
				vAssert(ok && kk == int(k), "lookup returns an item with the requested key")
				vAssert(model.hasKV(kk, vv), "lookup returns the live item's bytes")
			}
		case 3: // Delete2 (returns node too)
			k := vByte("key", i)
			n, ok := w.Delete2(c.item(k, vByte("val", i)))
			vAssert(ok == model.del(int(k)), "Delete2 succeeds iff a live item exists")
			vAssert(!ok || n != nil, "Delete2 returns the node it deleted")
		case 6: // DeleteNode through a handle obtained from an earlier successful Put2
			if nh == 0 {
				vAssume(false)
			}
			h := vRange("handle", i, 0, nh-1)
			// only handles of versions that are still live: what DeleteNode does with a stale handle is outside
			// C02 (and in user-memory mode the node may already have been returned to the allocator)
			vAssume(model.present[hslot[h]])
			ok := w.DeleteNode(hnode[h])
			vAssert(ok, "DeleteNode of a live version succeeds")
			model.present[hslot[h]] = false
			vReach("deletenode-live")
		case 4: // NewSnapshot
			if ns >= 8 {
				vAssume(false)
			}
			s, err := db.NewSnapshot()
			vAssert(err == nil && s != nil, "NewSnapshot succeeds")
			vAssert(db.ItemsCount() == int64(model.count()), "ItemsCount equals reference set size")
			snaps[ns], ghosts[ns], open[ns] = s, model, true
			vScanCheck(db, c, s, &ghosts[ns], "new snapshot")
			ns++
		case 5: // Close some open snapshot
			if ns == 0 {
				vAssume(false)
			}
			j := vRange("snap", i, 0, ns-1)
			if !open[j] {
				vAssume(false)
			}
			snaps[j].Close()
			open[j] = false
			vReach("snapshot-closed")
		}
	}
	// the next snapshot's content and Count() equal the reference set
	s, err := db.NewSnapshot()
	vAssert(err == nil && s != nil, "final NewSnapshot succeeds")
	vAssert(db.ItemsCount() == int64(model.count()), "final ItemsCount equals reference set size")
	g := model
	vScanCheck(db, c, s, &g, "final snapshot")
	// snapshots still open are unchanged (C01 overlap, cheap here)
	for j := 0; j < ns; j++ {
		if open[j] {
			vScanCheck(db, c, snaps[j], &ghosts[j], "older open snapshot")
		}
	}
	vReach("c02-done")
}

// H_C02M: several operations on ONE key inside one epoch (put, delete, re-put, re-delete ... through either of two
// writers), over 'epochs' epochs with a snapshot after each; every older snapshot stays open so earlier versions
// of the key remain physically present. Results, ItemsCount, Count() and the content of every snapshot (old ones
// re-scanned after each epoch) are compared with the reference set. A second, untouched key brackets the scans.
func H_C02M() {
	cfg, c := vConfig()
	db := NewWithConfig(cfg)
	ws := vWriters(db, 2)
	E := vBound("epochs")
	S := vBound("slots")
	key, other := vByte("key", 0), vByte("key", 1)
	vAssume(key != other)
	var model vSetModel
	n := ws[0].Put2(c.item(other, 7))
	vAssert((n != nil) == model.put(int(other), c.val(7)), "Put result")
	var snaps [4]*Snapshot
	var ghosts [4]vSetModel
	for e := 0; e < E; e++ {
		for s := 0; s < S; s++ {
			slot := e*4 + s
			act := vChoice("act", slot, 5) // 0 none, 1/2 Put by writer 0/1, 3/4 Delete by writer 0/1
			if act == 0 {
				continue
			}
			w := ws[(act-1)%2]
			if act <= 2 {
				v := vByte("val", slot)
				n := w.Put2(c.item(key, v))
				vAssert((n != nil) == model.put(int(key), c.val(v)), "Put result")
			} else {
				ok := w.Delete(c.item(key, 0))
				vAssert(ok == model.del(int(key)), "Delete result")
				if ok && s > 0 {
					vReach("delete-after-earlier-op-in-epoch")
				}
			}
		}
		sn, err := db.NewSnapshot()
		vAssert(err == nil && sn != nil, "NewSnapshot succeeds")
		vAssert(db.ItemsCount() == int64(model.count()), "ItemsCount equals reference set size")
		snaps[e], ghosts[e] = sn, model
		// newest first: a scan unlinks marked nodes it walks over, so scanning an older snapshot first could repair
		// what the new snapshot would otherwise show
		for x := e; x >= 0; x-- {
			vScanCheck(db, c, snaps[x], &ghosts[x], "snapshot content equals the reference set at its creation")
		}
	}
	if vBound("closeall") == 1 {
		// C06 clause: once every snapshot is closed and the collector has run, exactly the live items remain linked
		// and the statistics say so (a version born and deleted inside one epoch must be gone at once, whatever
		// older versions of its key are still around)
		lastSn := snaps[E-1].sn
		for x := 0; x < E; x++ {
			snaps[x].Close()
		}
		vQuiesce()
		db.GC()
		vQuiesce()
		m := vStoreWalk(db)
		vAssert(m.nodes == model.count(), "completeness: only live items remain linked once every snapshot is closed")
		vAssert(m.dead == 0, "completeness: no dead version remains linked")
		st := db.aggrStoreStats()
		vAssert(st.NodeCount == model.count(), "node_count equals live items")
		vAssert(vDistOK(&st, &m), "per-level node counts equal the walk")
		vAssert(st.SoftDeletes == 0, "soft_deletes is zero at quiescence")
		vAssert(db.MemoryInUse() == m.mem, "MemoryInUse equals what the live items account for")
		vAssert(db.GetLastGCSn() == lastSn, "collector advanced to the last closed snapshot")
		if c.mm {
			vAssert(st.NodeAllocs-st.NodeFrees == int64(model.count()), "allocations minus frees equals live nodes")
			db.Close()
			vAssert(vLiveBlocks() == 0, "every allocated block was returned by Close")
		}
		vReach("c02m-closed-all")
	}
	vReach("c02m-done")
}
