package nitro

import "fmt"

// H_C10: Visitor delivers every visible item exactly once, ascending within a shard, shards ordered.
func H_C10() {
	cfg, c := vConfig()
	db := NewWithConfig(cfg)
	ws := vWriters(db, 1)
	w := ws[0]
	nops := vBound("ops")
	var model vSetModel
	var snaps [8]*Snapshot
	var ghosts [8]vSetModel
	ns := 0
	for i := 0; i < nops; i++ {
		switch vChoice("op", i, 3) {
		case 0:
			k, v := vByte("key", i), vByte("val", i)
			n := w.Put2(c.item(k, v))
			vAssert((n != nil) == model.put(int(k), c.val(v)), "Put result")
		case 1:
			k := vByte("key", i)
			ok := w.Delete(c.item(k, 0))
			vAssert(ok == model.del(int(k)), "Delete result")
		case 2:
			s, err := db.NewSnapshot()
			vAssert(err == nil && s != nil, "NewSnapshot succeeds")
			snaps[ns], ghosts[ns] = s, model
			ns++
		}
	}
	s, _ := db.NewSnapshot()
	snaps[ns], ghosts[ns] = s, model
	ns++
	j := vRange("snap", 0, 0, ns-1)
	g := &ghosts[j]
	shards := vRange("shards", 0, 1, vBound("maxshards"))
	conc := vRange("conc", 0, 1, vBound("maxconc"))
	failAt := vRange("failat", 0, -1, vBound("failrange")) // -1: never
	var logK, logV, logS [12]int
	nlog := 0
	calls := 0
	cb := func(itm *Item, shard int) error {
		k, v, ok := c.decode(itm.Bytes())
		if !ok {
			vFail("visitor item bytes have an unexpected shape")
		}
		if calls == failAt {
			calls++
			vReach("callback-error-injected")
			return fmt.Errorf("injected")
		}
		calls++
		if nlog >= 12 {
			vFail("visitor delivered more items than were ever inserted")
		}
		logK[nlog], logV[nlog], logS[nlog] = k, v, shard
		nlog++
		return nil
	}
	err := db.Visitor(snaps[j], cb, shards, conc)
	if failAt >= 0 && calls > failAt {
		vAssert(err != nil, "Visitor returns an error when a callback failed")
	} else {
		vAssert(err == nil, "Visitor returns nil when no callback failed")
		vAssert(nlog == g.count(), "every visible item is delivered exactly once over all shards")
		for a := 0; a < nlog; a++ {
			vAssert(g.hasKV(logK[a], logV[a]), "delivered item is visible in the snapshot")
			for b := a + 1; b < nlog; b++ {
				vAssert(logK[a] != logK[b], "no item is delivered twice")
				if logS[a] == logS[b] {
					vAssert(logK[a] < logK[b], "ascending within a shard") // log order is delivery order per shard
				}
				if logS[a] < logS[b] {
					vAssert(logK[a] < logK[b], "every item of shard i precedes every item of shard i+1")
				}
				if logS[a] > logS[b] {
					vAssert(logK[a] > logK[b], "every item of shard i precedes every item of shard i+1")
				}
			}
		}
		if shards > 1 && nlog > 1 {
			vReach("multi-shard-visit")
		}
	}
	vReach("c10-done")
}

// H_C10N: node-count / shard-count arithmetic. n distinct symbolic keys (n forked, 0..maxitems) in one epoch, visited
// on the latest snapshot with shards 1..maxshards and concurrency 1..maxconc, optionally with a callback error.
func H_C10N() {
	cfg, c := vConfig()
	db := NewWithConfig(cfg)
	ws := vWriters(db, 1)
	n := vRange("nitems", 0, 0, vBound("maxitems"))
	var g vSetModel
	prev := -1
	for i := 0; i < n; i++ {
		k := vByte("key", i)
		vAssume(int(k) > prev)
		prev = int(k)
		ws[0].Put2(c.item(k, byte(i)))
		g.put(int(k), c.val(byte(i)))
	}
	s, _ := db.NewSnapshot()
	shards := vRange("shards", 0, 1, vBound("maxshards"))
	conc := vRange("conc", 0, 1, vBound("maxconc"))
	failAt := vRange("failat", 0, -1, vBound("failrange"))
	var logK, logS [12]int
	nlog := 0
	calls := 0
	cb := func(itm *Item, shard int) error {
		k, _, ok := c.decode(itm.Bytes())
		if !ok {
			vFail("visitor item bytes have an unexpected shape")
		}
		if calls == failAt {
			calls++
			return fmt.Errorf("injected")
		}
		calls++
		if nlog >= 12 {
			vFail("visitor delivered more items than exist")
		}
		logK[nlog], logS[nlog] = k, shard
		nlog++
		return nil
	}
	err := db.Visitor(s, cb, shards, conc)
	if failAt >= 0 && calls > failAt {
		vAssert(err != nil, "Visitor returns an error when a callback failed")
		vReach("callback-error-injected")
	} else {
		vAssert(err == nil, "Visitor returns nil when no callback failed")
		vAssert(nlog == n, "every item is delivered exactly once over all shards")
		for a := 0; a < nlog; a++ {
			vAssert(g.has(logK[a]), "delivered item is in the snapshot")
			for b := a + 1; b < nlog; b++ {
				vAssert(logK[a] != logK[b], "no item is delivered twice")
				if logS[a] <= logS[b] {
					vAssert(logK[a] < logK[b], "ascending within a shard and across ordered shards")
				} else {
					vAssert(logK[a] > logK[b], "every item of shard i precedes every item of shard i+1")
				}
			}
		}
	}
	if shards > n {
		vReach("more-shards-than-items")
	}
	vReach("c10n-done")
}

// H_C10U: Visitor on a snapshot while the store holds items inserted AFTER that snapshot whose statistics have
// not been merged yet (the merge happens in NewSnapshot): the range split works from stale counts. n concrete
// items, snapshot, then 0..maxextra more items with symbolic keys and no further snapshot; shards 1..maxshards,
// concurrency 1..maxconc, optional callback error. Besides exactly-once and ordering, the shard index handed to
// the callback must be below the shard count asked for (StoreToDisk indexes its writers with it), an error must be
// returned when a callback failed, and Visitor must terminate.
func H_C10U() {
	cfg, c := vConfig()
	db := NewWithConfig(cfg)
	ws := vWriters(db, 1)
	n := vBound("items")
	var g vSetModel
	for i := 0; i < n; i++ {
		k := byte(10 + 7*i)
		ws[0].Put2(c.item(k, byte(i+1)))
		g.put(int(k), c.val(byte(i+1)))
	}
	s, _ := db.NewSnapshot()
	extra := vRange("extra", 0, 0, vBound("maxextra"))
	for i := 0; i < extra; i++ {
		if ws[0].Put2(c.item(vByte("xkey", i), 9)) != nil {
			vReach("unmerged-insert")
		}
	}
	shards := vRange("shards", 0, 1, vBound("maxshards"))
	conc := vRange("conc", 0, 1, vBound("maxconc"))
	failAt := vRange("failat", 0, -1, vBound("failrange"))
	var logK, logS [12]int
	nlog, calls := 0, 0
	cb := func(itm *Item, shard int) error {
		vAssert(shard >= 0 && shard < shards, "the shard index handed to the callback is below the shard count asked for")
		k, _, ok := c.decode(itm.Bytes())
		if !ok {
			vFail("visitor item bytes have an unexpected shape")
		}
		if calls == failAt {
			calls++
			return fmt.Errorf("injected")
		}
		calls++
		if nlog >= 12 {
			vFail("visitor delivered more items than exist")
		}
		logK[nlog], logS[nlog] = k, shard
		nlog++
		return nil
	}
	err := db.Visitor(s, cb, shards, conc)
	if failAt >= 0 && calls > failAt {
		vAssert(err != nil, "Visitor returns an error when a callback failed")
		vReach("callback-error-injected")
	} else {
		vAssert(err == nil, "Visitor returns nil when no callback failed")
		vAssert(nlog == n, "every visible item is delivered exactly once over all shards")
		for a := 0; a < nlog; a++ {
			vAssert(g.has(logK[a]), "delivered item is visible in the snapshot")
			for b := a + 1; b < nlog; b++ {
				vAssert(logK[a] != logK[b], "no item is delivered twice")
				if logS[a] == logS[b] && conc == 1 {
					vAssert(logK[a] < logK[b], "ascending within a shard")
				}
				if logS[a] < logS[b] {
					vAssert(logK[a] < logK[b], "every item of shard i precedes every item of shard i+1")
				}
				if logS[a] > logS[b] {
					vAssert(logK[a] > logK[b], "every item of shard i precedes every item of shard i+1")
				}
			}
		}
	}
	vReach("c10u-done")
}
