package nitro

// H_C09: iterator positioning is exact and independent of refresh.
// History (snapshots stay open so that dead versions remain physically present), then on a chosen snapshot:
// SeekFirst or Seek(q), Next until invalid, with refresh rate r in 0..3 and optional explicit Refresh() calls.
func H_C09() {
	cfg, c := vConfig()
	db := NewWithConfig(cfg)
	ws := vWriters(db, 1)
	w := ws[0]
	nops := vBound("ops")
	var model vSetModel
	var snaps [8]*Snapshot
	var ghosts [8]vSetModel
	ns := 0
	for i := 0; i < nops; i++ {
		switch vChoice("op", i, 3) {
		case 0:
			k, v := vByte("key", i), vByte("val", i)
			n := w.Put2(c.item(k, v))
			vAssert((n != nil) == model.put(int(k), c.val(v)), "Put result")
		case 1:
			k := vByte("key", i)
			ok := w.Delete(c.item(k, 0))
			vAssert(ok == model.del(int(k)), "Delete result")
		case 2:
			s, err := db.NewSnapshot()
			vAssert(err == nil && s != nil, "NewSnapshot succeeds")
			snaps[ns], ghosts[ns] = s, model
			ns++
		}
	}
	s, _ := db.NewSnapshot()
	snaps[ns], ghosts[ns] = s, model
	ns++
	j := vRange("snap", 0, 0, ns-1)
	g := &ghosts[j]
	it := db.NewIterator(snaps[j])
	if it == nil {
		vFail("NewIterator returned nil for an open snapshot")
		return
	}
	r := vRange("rate", 0, 0, vBound("maxrate"))
	it.SetRefreshRate(r)
	q := -1
	if vChoice("seekmode", 0, 2) == 0 {
		it.SeekFirst()
	} else {
		qb := vByte("q", 0)
		q = int(qb)
		it.Seek(c.item(qb, 0))
	}
	// expected number of items: visible items with key >= q
	exp := 0
	for i := 0; i < g.n; i++ {
		exp += vB2I(vAnd(g.present[i], g.key[i] >= q))
	}
	cnt := 0
	last := -1
	for it.Valid() {
		if vChoice("refresh", cnt, 2) == 1 {
			it.Refresh()
			vReach("explicit-refresh")
			if !it.Valid() {
				vFail("Refresh invalidated a valid iterator")
			}
		}
		k, v, ok := c.decode(it.Get())
		vAssert(ok, "item bytes have the stored shape")
		vAssert(k >= q, "item is not below the seek key")
		vAssert(k > last, "observed keys strictly ascending (no repeats)")
		vAssert(g.hasKV(k, v), "observed item is visible in the snapshot with exactly these bytes")
		last = k
		cnt++
		if cnt > 10 {
			vFail("iterator does not terminate")
		}
		it.Next()
	}
	it.Close()
	vAssert(cnt == exp, "every visible item >= seek key is observed exactly once, then Valid turns false")
	vReach("c09-done")
}
