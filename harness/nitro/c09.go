package nitro

// H_C09: iterator positioning is exact and independent of refresh.
// History (snapshots stay open so that dead versions remain physically present), then on a chosen snapshot:
// SeekFirst or Seek(q), Next until invalid, with refresh rate r in 0..3 and optional explicit Refresh() calls.
func H_C09() {
	cfg, c := vConfig()
	db := NewWithConfig(cfg)
	ws := vWriters(db, 1)
	w := ws[0]
	nops := vBound("ops")
	var model vSetModel
	var snaps [8]*Snapshot
	var ghosts [8]vSetModel
	ns := 0
	for i := 0; i < nops; i++ {
		switch vChoice("op", i, 3) {
		case 0:
			k, v := vByte("key", i), vByte("val", i)
			n := w.Put2(c.item(k, v))
			vAssert((n != nil) == model.put(int(k), c.val(v)), "Put result")
		case 1:
			k := vByte("key", i)
			ok := w.Delete(c.item(k, 0))
			vAssert(ok == model.del(int(k)), "Delete result")
		case 2:
			s, err := db.NewSnapshot()
			vAssert(err == nil && s != nil, "NewSnapshot succeeds")
			snaps[ns], ghosts[ns] = s, model
			ns++
		}
	}
	s, _ := db.NewSnapshot()
	snaps[ns], ghosts[ns] = s, model
	ns++
	j := vRange("snap", 0, 0, ns-1)
	g := &ghosts[j]
	it := db.NewIterator(snaps[j])
	if it == nil {
		vFail("NewIterator returned nil for an open snapshot")
		return
	}
	r := vRange("rate", 0, 0, vBound("maxrate"))
	it.SetRefreshRate(r)
	q := -1
	if vChoice("seekmode", 0, 2) == 0 {
		it.SeekFirst()
	} else {
		qb := vByte("q", 0)
		q = int(qb)
		it.Seek(c.item(qb, 0))
	}
	// expected number of items: visible items with key >= q
	exp := 0
	for i := 0; i < g.n; i++ {
		exp += vB2I(vAnd(g.present[i], g.key[i] >= q))
	}
	cnt := 0
	last := -1
	for it.Valid() {
		if vChoice("refresh", cnt, 2) == 1 {
			it.Refresh()
			vReach("explicit-refresh")
			if !it.Valid() {
				vFail("Refresh invalidated a valid iterator")
			}
		}
		k, v, ok := c.decode(it.Get())
		vAssert(ok, "item bytes have the stored shape")
		vAssert(k >= q, "item is not below the seek key")
		vAssert(k > last, "observed keys strictly ascending (no repeats)")
		vAssert(g.hasKV(k, v), "observed item is visible in the snapshot with exactly these bytes")
		last = k
		cnt++
		if cnt > 10 {
			vFail("iterator does not terminate")
		}
		it.Next()
	}
	it.Close()
	vAssert(cnt == exp, "every visible item >= seek key is observed exactly once, then Valid turns false")
	vReach("c09-done")
}

// H_C09_vis: the visibility rule, decided for ALL snapshot numbers at once. Three physically present items with
// concrete ascending keys carry symbolic (bornSn, deadSn) stamps (bornSn >= 1; deadSn == 0 or deadSn > bornSn, as
// writers produce them); the iterator runs on a snapshot object with a symbolic sn. An item is visible iff
// bornSn <= sn and (deadSn == 0 or deadSn > sn). SeekFirst/Seek(x)/Next must deliver exactly the visible items
// with key >= x in order, for every refresh rate 0..2. This is one step from an arbitrary version state: it covers
// every history that leads to three physical versions, whatever the epochs involved.
func H_C09_vis() {
	cfg, c := vConfig()
	db := NewWithConfig(cfg)
	ws := vWriters(db, 1)
	keys := [3]byte{10, 21, 30} // with vlens > 1 the middle item is two bytes long
	var born, dead [3]uint32
	var vis [3]bool
	sn := vU32("sn", 0)
	vAssume(sn >= 1)
	for i := 0; i < 3; i++ {
		n := ws[0].Put2(c.item(keys[i], byte(i+1)))
		itm := (*Item)(n.Item())
		born[i], dead[i] = vU32("born", i), vU32("dead", i)
		vAssume(born[i] >= 1)
		vAssume(vOr(dead[i] == 0, dead[i] > born[i]))
		itm.bornSn, itm.deadSn = born[i], dead[i]
		vis[i] = vAnd(born[i] <= sn, vOr(dead[i] == 0, dead[i] > sn))
	}
	snap := &Snapshot{db: db, sn: sn, refCount: 1}
	seek := vChoice("seek", 0, 2) == 1
	x := byte(0)
	if seek {
		x = vByte("x", 0)
	}
	it := db.NewIterator(snap)
	vAssert(it != nil, "iterator on an open snapshot")
	it.SetRefreshRate(vRange("rate", 0, 0, 2))
	if seek {
		it.Seek(c.item(x, 0))
	} else {
		it.SeekFirst()
	}
	everywhere := vChoice("refresheverywhere", 0, 2) == 1
	for i := 0; i < 3; i++ {
		want := vAnd(vis[i], keys[i] >= x)
		if everywhere {
			it.Refresh() // an explicit Refresh at every position must not change what is observed
		}
		// the scan is at item i now iff item i is wanted; consume it if so
		if it.Valid() {
			k, _, ok := c.decode(it.Get())
			vAssert(ok, "item bytes have the expected shape")
			if k == int(keys[i]) {
				vAssert(want, "delivered item is visible in the snapshot and >= the seek key")
				it.Next()
				continue
			}
			vAssert(k > int(keys[i]), "scan order: never an item below the expected position")
		}
		vAssert(vNot(want), "every visible item (>= the seek key) is delivered")
	}
	vAssert(!it.Valid(), "Valid is false exactly after the last visible item")
	it.Close()
	vReach("c09-vis-done")
}
