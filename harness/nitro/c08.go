package nitro

import "sync"

// H_C08: snapshot handles. Open / NewIterator racing with the Close that drops the last reference.
// Threads: A = { if s.Open() { s.Close() } } (or the NewIterator / Iterator.Close form), B = { s.Close() }.
// Interleavings of their atomic steps are explored with a preemption bound.
func H_C08() {
	db := New()
	w := db.NewWriter()
	w.rand = vRand("w0")
	w.Put([]byte{1})
	s, _ := db.NewSnapshot()
	extra := vChoice("extraref", 0, 2) == 1
	if extra {
		vAssert(s.Open(), "Open on a live snapshot succeeds")
	}
	useIter := vChoice("useiter", 0, 2) == 1
	gcThread := vBound("gcthread") == 1
	var wg sync.WaitGroup
	wg.Add(2)
	if gcThread {
		wg.Add(1)
	}
	opened := false
	vConcurrent(true)
	go func() {
		vThread("A")
		if useIter {
			it := db.NewIterator(s)
			if it != nil {
				opened = true
				it.Close()
			}
		} else {
			if s.Open() {
				opened = true
				s.Close()
			}
		}
		vThreadDone("A")
		wg.Done()
	}()
	go func() {
		vThread("B")
		s.Close()
		vThreadDone("B")
		wg.Done()
	}()
	if gcThread {
		// a collection pass requested through the public API races with the closes
		go func() {
			vThread("G")
			db.GC()
			vThreadDone("G")
			wg.Done()
		}()
	}
	wg.Wait()
	vConcurrent(false)
	if extra {
		vAssert(opened, "Open succeeds while another reference is still held")
		s.Close()
	}
	if opened {
		vReach("open-won")
	} else {
		vReach("open-lost")
	}
	vQuiesce()
	vAssert(s.refCount == 0, "reference count is zero after every holder closed")
	vAssert(!s.Open(), "Open fails after the last reference was dropped")
	if vChoice("surplus", 0, 2) == 1 {
		// a Close without a matching reference (the repository's own TestStoreDiskShutdown does this: StoreToDisk
		// and its caller both close the snapshot). Only the retire-exactly-once / collector-progress clauses are
		// asserted after it; what Open answers on an over-closed handle is outside the claim.
		s.Close()
		vQuiesce()
		vReach("surplus-close")
	}
	// the collector must be able to make progress on all later snapshots
	s2, _ := db.NewSnapshot()
	s2.Close()
	vQuiesce()
	vAssert(db.GetLastGCSn() == s2.sn, "the final Close of a later snapshot triggers collection of everything retired so far")
	db.GC()
	vQuiesce()
	vAssert(db.GetLastGCSn() == s2.sn, "collector progresses past later snapshots (snapshot retired exactly once)")
	vAssert(db.gcsnapshots.GetStats().NodeCount == 0 && db.snapshots.GetStats().NodeCount == 0, "no snapshot left in the live or retired lists")
	vReach("c08-done")
}
