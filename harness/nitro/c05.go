package nitro

// H_C05: backup and restore reproduce the stored snapshot exactly.
func H_C05() {
	cfg, c := vConfig()
	delta := vBound("delta") == 1
	if delta {
		cfg.UseDeltaInterleaving()
	}
	DiskBlockSize = vBound("blocksize")
	db := NewWithConfig(cfg)
	ws := vWriters(db, 1)
	w := ws[0]
	nops := vBound("ops")
	var model vSetModel
	var snaps [8]*Snapshot
	var ghosts [8]vSetModel
	ns := 0
	for i := 0; i < nops; i++ {
		switch vChoice("op", i, 3) {
		case 0:
			k, v := vByte("key", i), vByte("val", i)
			n := w.Put2(c.item(k, v))
			vAssert((n != nil) == model.put(int(k), c.val(v)), "Put result")
		case 1:
			k := vByte("key", i)
			ok := w.Delete(c.item(k, 0))
			vAssert(ok == model.del(int(k)), "Delete result")
		case 2:
			s, err := db.NewSnapshot()
			vAssert(err == nil && s != nil, "NewSnapshot succeeds")
			snaps[ns], ghosts[ns] = s, model
			ns++
		}
	}
	s, _ := db.NewSnapshot()
	snaps[ns], ghosts[ns] = s, model
	ns++
	j := vRange("snap", 0, 0, ns-1)
	if j < ns-1 {
		vReach("stored-older-snapshot")
	}
	g := ghosts[j]
	dir := vFSDir() + "/c05"
	concurr := vRange("concurr", 0, 1, vBound("maxconc"))
	// mutation during the backup (delta mode): at callback number mutAt the writer deletes / re-puts a key and
	// snapshots churn, so that GC removes items the backup has not visited yet
	mutAt := -1
	if delta {
		mutAt = vRange("mutat", 0, -1, vBound("mutrange"))
	}
	calls := 0
	cb := func(e *ItemEntry) {
		if calls == mutAt {
			vReach("mutation-during-backup")
			k := vByte("mkey", 0)
			if vChoice("mop", 0, 2) == 0 {
				w.Delete(c.item(k, 0))
			} else {
				w.Put2(c.item(k, vByte("mval", 0)))
			}
			s2, _ := db.NewSnapshot()
			s2.Close()
			// let the collector run now, i.e. before the backup has visited the remaining items
			vQuiesce()
			if db.GetLastGCSn() > 0 {
				vReach("gc-ran-during-backup")
			}
		}
		calls++
	}
	vAssert(snaps[j].Open(), "stored snapshot is open")
	closedOthers := vChoice("closeothers", 0, 2) == 1
	if closedOthers {
		// only the stored snapshot (our extra reference) stays open, so the collector can run during the backup
		for x := 0; x < ns; x++ {
			snaps[x].Close()
		}
		vReach("others-closed-before-backup")
	}
	err := db.StoreToDisk(dir, snaps[j], concurr, cb)
	vAssert(err == nil, "StoreToDisk of an open snapshot into an empty directory succeeds")
	if err != nil {
		return
	}
	db2 := NewWithConfig(cfg)
	snap2, err := db2.LoadFromDisk(dir, vRange("lconcurr", 0, 1, vBound("maxconc")), nil)
	vAssert(err == nil && snap2 != nil, "LoadFromDisk of a successful backup succeeds")
	if err != nil || snap2 == nil {
		return
	}
	vScanCheck(db2, c, snap2, &g, "restored snapshot")
	if delta && db2.DeltaRestoreFailed > 0 {
		vReach("delta-insert-rejected") // an item was present in the main data and in a delta file
	}
	if delta && db2.DeltaRestored > 0 {
		vReach("delta-item-restored") // an item reached the restored snapshot only through a delta file
	}
	// the restored instance obeys the set semantics afterwards
	w2 := db2.NewWriter()
	w2.rand = vRand("w2")
	post := vBound("postops")
	for i := 0; i < post; i++ {
		k := vByte("pkey", i)
		if vChoice("pop", i, 2) == 0 {
			n := w2.Put2(c.item(k, vByte("pval", i)))
			vAssert((n != nil) == g.put(int(k), c.val(vByte("pval", i))), "Put on restored instance")
		} else {
			ok := w2.Delete(c.item(k, 0))
			vAssert(ok == g.del(int(k)), "Delete on restored instance")
		}
	}
	s3, err := db2.NewSnapshot()
	vAssert(err == nil && s3 != nil, "NewSnapshot on restored instance")
	vScanCheck(db2, c, s3, &g, "restored instance after later operations")
	// the snapshot returned by LoadFromDisk is itself an immutable view while it stays open
	g0 := ghosts[j]
	vScanCheck(db2, c, snap2, &g0, "restored snapshot after later operations on the restored instance")
	// C07 clause (user-managed memory): both instances return every block once everything is closed, whatever
	// the backup and the restore went through (delta items, rejected delta inserts, later operations)
	if c.mm {
		if !closedOthers {
			for x := 0; x < ns; x++ {
				snaps[x].Close()
			}
		}
		snaps[j].Close()
		db.Close()
		s3.Close()
		snap2.Close()
		db2.Close()
		vAssert(vLiveBlocks() == 0, "source and restored instance return every block by Close")
		vReach("c05-closed-all")
	}
	vReach("c05-done")
}
