package nitro

import "sync"

// vPick: a bound named <name><idx> fixes the choice; -1 (or absent... bounds must exist) forks over all n values.
func vPick(name string, idx int, n int) int {
	names := map[string][2]string{"shape": {"shape0", "shape0"}, "opA": {"opA0", "opA1"}, "opB": {"opB0", "opB0"}, "kA": {"kA0", "kA1"}, "kB": {"kB0", "kB0"}}
	b := vBound(names[name][idx])
	if b >= 0 {
		return b
	}
	return vChoice(name, idx, n)
}

// H_C03: two writers, one goroutine each, between two snapshot creations. Thread A performs opsA operations,
// thread B one; keys symbolic. Setup gives key a one of four version shapes and optionally a second key.
// Oracle: results, next snapshot content and Count() equal one of the sequential interleavings (B's operation
// placed before, between or after A's); then every snapshot is closed, the workers drain and GC() is forced:
// only live items may remain linked (the contended-delete clause of C06: garbage lists stay intact).
//
// op: 0 Put, 1 Delete, 2 GetNode
func H_C03() {
	cfg, c := vConfig()
	db := NewWithConfig(cfg)
	ws := vWriters(db, 2)
	var model vSetModel
	var older *Snapshot
	ka := vByte("ka", 0)
	shape := vPick("shape", 0, 4)
	switch shape {
	case 0: // absent
		older, _ = db.NewSnapshot()
	case 1: // alive, born in an earlier epoch
		ws[0].Put2(c.item(ka, 1))
		model.put(int(ka), c.val(1))
		older, _ = db.NewSnapshot()
	case 2: // alive, born in the current epoch
		older, _ = db.NewSnapshot()
		ws[0].Put2(c.item(ka, 1))
		model.put(int(ka), c.val(1))
	case 3: // an older version is stamped dead but still physically present (pinned by the older snapshot)
		ws[0].Put2(c.item(ka, 1))
		older, _ = db.NewSnapshot()
		ws[0].Delete(c.item(ka, 0))
	}
	if vBound("second") == 1 {
		kb := vByte("kb", 0)
		vAssume(kb > ka)
		// born in an earlier epoch as well: needs its own epoch boundary only for shape 1/3; keep it simple and
		// insert it in the current epoch for shapes 0/2 and before the snapshot otherwise
		ws[1].Put2(c.item(kb, 2))
		model.put(int(kb), c.val(2))
		if shape == 1 || shape == 3 {
			s2, _ := db.NewSnapshot()
			s2.Close()
		}
	}
	nA := vBound("opsA")
	type opT struct {
		op  int
		key byte
		val byte
		res bool
	}
	var A [2]opT
	var B opT
	// operation keys: 0 = the setup key a, 1 = the second key (> a), 2 = an unconstrained symbolic key
	kbv := byte(0)
	if vBound("second") == 1 {
		kbv = vByte("kb", 0)
	}
	pickKey := func(tag string, i int, sym byte) byte {
		switch vPick(tag, i, 3) {
		case 0:
			return ka
		case 1:
			return kbv
		}
		return sym
	}
	for i := 0; i < nA; i++ {
		A[i] = opT{op: vPick("opA", i, 3), key: pickKey("kA", i, vByte("xa", i)), val: byte(10 + i)}
	}
	B = opT{op: vPick("opB", 0, 3), key: pickKey("kB", 0, vByte("xb", 0)), val: 20}
	do := func(w *Writer, o *opT) {
		switch o.op {
		case 0:
			o.res = w.Put2(c.item(o.key, o.val)) != nil
		case 1:
			o.res = w.Delete(c.item(o.key, 0))
		case 2:
			o.res = w.GetNode(c.item(o.key, 0)) != nil
		}
	}
	var wg sync.WaitGroup
	wg.Add(2)
	vConcurrent(true)
	go func() {
		vThread("A")
		for i := 0; i < nA; i++ {
			do(ws[0], &A[i])
		}
		vThreadDone("A")
		wg.Done()
	}()
	go func() {
		vThread("B")
		do(ws[1], &B)
		vThreadDone("B")
		wg.Done()
	}()
	wg.Wait()
	vConcurrent(false)

	apply := func(m *vSetModel, o *opT) bool {
		switch o.op {
		case 0:
			return m.put(int(o.key), c.val(o.val))
		case 1:
			return m.del(int(o.key))
		}
		return m.has(int(o.key))
	}
	snap, err := db.NewSnapshot()
	vAssert(err == nil && snap != nil, "NewSnapshot after the concurrent phase")
	// observe the snapshot
	it := db.NewIterator(snap)
	var gotK, gotV [8]int
	ng := 0
	for it.SeekFirst(); it.Valid(); it.Next() {
		k, v, ok := c.decode(it.Get())
		vAssert(ok, "item shape")
		if ng >= 8 {
			vFail("snapshot delivers more items than ever inserted")
		}
		gotK[ng], gotV[ng] = k, v
		ng++
	}
	it.Close()
	okAny := false
	var finalCount int
	for pos := 0; pos <= nA; pos++ { // B's operation linearized before A[pos]
		m := model
		ok := true
		for i := 0; i <= nA; i++ {
			if i == pos {
				ok = vAnd(ok, apply(&m, &B) == B.res)
			}
			if i < nA {
				ok = vAnd(ok, apply(&m, &A[i]) == A[i].res)
			}
		}
		ok = vAnd(ok, ng == m.count())
		ok = vAnd(ok, snap.Count() == int64(m.count()))
		for j := 0; j < ng; j++ {
			ok = vAnd(ok, m.hasKV(gotK[j], gotV[j]))
		}
		okAny = vOr(okAny, ok)
		_ = finalCount
	}
	vAssert(okAny, "results, next snapshot content and Count() equal a linearization of the concurrent operations")
	for j := 1; j < ng; j++ {
		vAssert(gotK[j-1] < gotK[j], "snapshot ascending")
	}
	// C06 clause: nothing is stranded once every snapshot is closed
	older.Close()
	snap.Close()
	vQuiesce()
	db.GC()
	vQuiesce()
	sm := vStoreWalk(db)
	vAssert(sm.dead == 0, "no dead version stays linked after all snapshots are closed (garbage lists intact)")
	vAssert(sm.nodes == ng, "only the live items remain linked")
	vReach("c03-done")
}
