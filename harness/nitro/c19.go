package nitro

import (
	"bytes"
	"hash/crc32"
	"os"
)

// H_C19_file: items written through the backup file writer come back through the file reader as the same byte
// strings followed by end-of-stream, with equal checksums (CRC-32 is an uninterpreted function here: equality
// holds by congruence iff both sides hash the same prefix and payload bytes in the same framing).
func H_C19_file() {
	db := New()
	DiskBlockSize = vBound("blocksize") // exported variable: small, so buffer boundaries fall inside the data
	n := vRange("nitems", 0, 1, vBound("items"))
	maxlen := vBound("maxlen")
	path := vFSDir() + "/c19-shard"
	w := db.newFileWriter(RawdbFile)
	vAssert(w.Open(path) == nil, "writer opens")
	var lens [6]int
	var data [6][8]byte
	for i := 0; i < n; i++ {
		l := vRange("len", i, 1, maxlen)
		lens[i] = l
		bs := make([]byte, l)
		for j := 0; j < l; j++ {
			data[i][j] = vByte("b", i*8+j)
			bs[j] = data[i][j]
		}
		itm := db.newItem(bs, false)
		vAssert(w.WriteItem(itm) == nil, "WriteItem succeeds")
	}
	wsum := w.Checksum() // StoreToDisk takes the checksum before Close
	vAssert(w.Close() == nil, "writer closes")
	r := db.newFileReader(RawdbFile, 1)
	vAssert(r.Open(path) == nil, "reader opens")
	for i := 0; i < n; i++ {
		itm, err := r.ReadItem()
		vAssert(err == nil, "ReadItem succeeds")
		if itm == nil {
			vFail("premature end of stream")
			return
		}
		got := itm.Bytes()
		vAssert(len(got) == lens[i], "item length round-trips")
		for j := 0; j < lens[i] && j < len(got); j++ {
			vAssert(got[j] == data[i][j], "item bytes round-trip")
		}
	}
	itm, err := r.ReadItem()
	vAssert(itm == nil && err == nil, "end of stream after the last item")
	vAssert(r.Checksum() == wsum, "reader checksum equals writer checksum")
	r.Close()
	vReach("c19-file-done")
}

// H_C19_v0: a reader given format version 0 decodes 2-byte-length framing.
func H_C19_v0() {
	db := New()
	DiskBlockSize = vBound("blocksize")
	n := vRange("nitems", 0, 1, vBound("items"))
	maxlen := vBound("maxlen")
	// lay the file out by hand: [len16 BE][payload]... [0,0]
	var buf []byte
	var lens [6]int
	var data [6][8]byte
	for i := 0; i < n; i++ {
		l := vRange("len", i, 1, maxlen)
		lens[i] = l
		buf = append(buf, byte(l>>8), byte(l))
		for j := 0; j < l; j++ {
			data[i][j] = vByte("b", i*8+j)
			buf = append(buf, data[i][j])
		}
	}
	buf = append(buf, 0, 0)
	r0 := &rawFileReader{db: db, version: 0}
	r0.buf = make([]byte, encodeBufSize)
	rd := bytes.NewReader(buf)
	for i := 0; i < n; i++ {
		itm, _, err := db.DecodeItem(0, r0.buf, rd)
		vAssert(err == nil && itm != nil, "v0 item decodes")
		if itm == nil {
			return
		}
		got := itm.Bytes()
		vAssert(len(got) == lens[i], "v0 length")
		for j := 0; j < lens[i] && j < len(got); j++ {
			vAssert(got[j] == data[i][j], "v0 bytes")
		}
	}
	itm, _, err := db.DecodeItem(0, r0.buf, rd)
	vAssert(itm == nil && err == nil, "v0 end of stream")
	vReach("c19-v0-done")
}

// H_C19_v0big: the version-0 framing at the boundaries of its 16-bit length field (1, 255, 256, 2^15-1, 2^15,
// 2^16-1; forked per item), read through the real file reader from a file laid out by hand; concrete filler
// bytes (a CRC over 64 KiB of symbolic bytes would be one huge uninterpreted term), so the reader's checksum is
// compared with the reference XOR of crc(header)^crc(payload) computed concretely.
func H_C19_v0big() {
	db := New()
	DiskBlockSize = vBound("blocksize")
	lens := [6]int{1, 255, 256, 32767, 32768, 65535}
	n := vBound("items")
	var chosen [3]int
	var file []byte
	var ref uint32
	for i := 0; i < n; i++ {
		l := lens[vChoice("len", i, vBound("nlens"))]
		chosen[i] = l
		hdr := []byte{byte(l >> 8), byte(l)}
		bs := make([]byte, l)
		for j := range bs {
			bs[j] = byte(j*5 + i + 1)
		}
		ref = ref ^ crc32.ChecksumIEEE(hdr) ^ crc32.ChecksumIEEE(bs)
		file = append(file, hdr...)
		file = append(file, bs...)
	}
	file = append(file, 0, 0)
	path := vFSDir() + "/c19-v0big"
	vAssert(os.WriteFile(path, file, 0644) == nil, "hand-framed file written")
	r := db.newFileReader(RawdbFile, 0)
	vAssert(r.Open(path) == nil, "reader opens")
	for i := 0; i < n; i++ {
		itm, err := r.ReadItem()
		vAssert(err == nil && itm != nil, "v0 item decodes")
		if itm == nil {
			return
		}
		got := itm.Bytes()
		l := chosen[i]
		vAssert(len(got) == l, "v0 length round-trips")
		if len(got) == l {
			vAssert(got[0] == byte(i+1) && got[l-1] == byte((l-1)*5+i+1), "v0 first and last byte")
		}
	}
	itm, err := r.ReadItem()
	vAssert(itm == nil && err == nil, "v0 end of stream after the last item")
	vAssert(r.Checksum() == ref, "v0 reader checksum equals the reference")
	r.Close()
	vReach("c19-v0big-done")
}

// H_C19_kv: KVToBytes/KVFromBytes invert each other; CompareKV orders encoded pairs as bytes.Compare orders keys.
func H_C19_kv() {
	maxk := vBound("maxk")
	mk := func(tag string, base int) ([]byte, []byte) {
		kl := vRange(tag+"klen", 0, 0, maxk)
		vl := vRange(tag+"vlen", 0, 0, maxk)
		k := make([]byte, kl)
		v := make([]byte, vl)
		for i := 0; i < kl; i++ {
			k[i] = vByte(tag+"k", i)
		}
		for i := 0; i < vl; i++ {
			v[i] = vByte(tag+"v", i)
		}
		return k, v
	}
	k1, v1 := mk("a", 0)
	k2, v2 := mk("b", 0)
	e1, e2 := KVToBytes(k1, v1), KVToBytes(k2, v2)
	dk, dv := KVFromBytes(e1)
	vAssert(len(dk) == len(k1) && len(dv) == len(v1), "KV lengths round-trip")
	for i := range k1 {
		vAssert(dk[i] == k1[i], "key bytes round-trip")
	}
	for i := range v1 {
		vAssert(dv[i] == v1[i], "value bytes round-trip")
	}
	c := CompareKV(e1, e2)
	ref := bytes.Compare(k1, k2)
	vAssert((c < 0) == (ref < 0) && (c > 0) == (ref > 0), "CompareKV orders as bytes.Compare on keys")
	vReach("c19-kv-done")
}

// H_C19_big: long items (lengths around 2^8 and 2^16, where length bytes become zero / 0xff) with concrete content;
// the forked part is which lengths follow each other.
func H_C19_big() {
	db := New()
	DiskBlockSize = vBound("blocksize")
	lens := [6]int{255, 256, 257, 65535, 65536, 65537}
	path := vFSDir() + "/c19-big"
	w := db.newFileWriter(RawdbFile)
	vAssert(w.Open(path) == nil, "writer opens")
	n := vBound("items")
	var chosen [3]int
	var first, last [3]byte
	for i := 0; i < n; i++ {
		l := lens[vChoice("len", i, vBound("nlens"))]
		chosen[i] = l
		bs := make([]byte, l)
		for j := range bs {
			bs[j] = byte(j*7 + i)
		}
		first[i], last[i] = byte(0xff-i), byte(i) // concrete: the CRC of 64 KiB with symbolic bytes would be one huge uninterpreted term
		bs[0], bs[l-1] = first[i], last[i]
		vAssert(w.WriteItem(db.newItem(bs, false)) == nil, "WriteItem succeeds")
	}
	wsum := w.Checksum()
	vAssert(w.Close() == nil, "writer closes")
	r := db.newFileReader(RawdbFile, 1)
	vAssert(r.Open(path) == nil, "reader opens")
	for i := 0; i < n; i++ {
		itm, err := r.ReadItem()
		vAssert(err == nil && itm != nil, "ReadItem succeeds")
		if itm == nil {
			return
		}
		got := itm.Bytes()
		l := chosen[i]
		vAssert(len(got) == l, "long item length round-trips")
		if len(got) == l {
			vAssert(got[0] == first[i] && got[l-1] == last[i], "first and last byte round-trip")
			vAssert(got[1] == byte(7+i) && got[l-2] == byte((l-2)*7+i), "filler round-trips")
		}
	}
	itm, err := r.ReadItem()
	vAssert(itm == nil && err == nil, "end of stream after the last item")
	vAssert(r.Checksum() == wsum, "reader checksum equals writer checksum")
	r.Close()
	vReach("c19-big-done")
}

// H_C19_kvbig: key lengths around 2^8 (where the second length byte becomes non-zero) with concrete filler and a
// symbolic first byte; round trip and comparison against bytes.Compare on the keys.
func H_C19_kvbig() {
	lens := [4]int{1, 255, 256, 257}
	mk := func(tag string) ([]byte, []byte) {
		kl := lens[vChoice(tag+"klen", 0, 4)]
		k := make([]byte, kl)
		for i := range k {
			k[i] = byte(i)
		}
		k[0] = vByte(tag+"k", 0)
		k[kl-1] = vByte(tag+"k", 1)
		v := []byte{vByte(tag+"v", 0)}
		return k, v
	}
	k1, v1 := mk("a")
	k2, v2 := mk("b")
	e1, e2 := KVToBytes(k1, v1), KVToBytes(k2, v2)
	dk, dv := KVFromBytes(e1)
	vAssert(len(dk) == len(k1) && len(dv) == 1, "KV lengths round-trip for long keys")
	vAssert(dk[0] == k1[0] && dk[len(dk)-1] == k1[len(k1)-1] && dv[0] == v1[0], "first/last key byte and value round-trip")
	c := CompareKV(e1, e2)
	ref := bytes.Compare(k1, k2)
	vAssert((c < 0) == (ref < 0) && (c > 0) == (ref > 0), "CompareKV orders long keys as bytes.Compare")
	vReach("c19-kvbig-done")
}
