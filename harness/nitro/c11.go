package nitro

// vStoreFixture builds a small database with concrete content (so that CRC-32 and JSON are computed for real),
// with older and newer versions of some keys physically present, and stores a snapshot of it.
// Returns the reference content of the stored snapshot.
func vStoreFixture(cfg Config, c vCfgT, dir string, nitems int) (g vSetModel) {
	db := NewWithConfig(cfg)
	ws := vWriters(db, 1)
	w := ws[0]
	var model vSetModel
	for i := 0; i < nitems; i++ {
		k := byte(10 + 7*i)
		w.Put2(c.item(k, byte(i+1)))
		model.put(int(k), c.val(byte(i+1)))
	}
	old, _ := db.NewSnapshot()
	// churn: delete and re-insert the first key so that an older version stays physically present
	if nitems > 0 {
		w.Delete(c.item(10, 0))
		model.del(10)
		w.Put2(c.item(10, 9))
		model.put(10, c.val(9))
	}
	snap, _ := db.NewSnapshot()
	g = model
	snap.Open()
	var cb ItemCallback
	if cfg.useDeltaFiles && nitems > 1 {
		// delta mode: make the delta files non-empty. At the first item callback the last key (not yet visited) is
		// deleted and, with every other snapshot released, garbage-collected, so it reaches the backup only through
		// a delta file.
		old.Close()
		calls := 0
		lastKey := byte(10 + 7*(nitems-1))
		cb = func(e *ItemEntry) {
			if calls == 0 {
				w.Delete(c.item(lastKey, 0))
				s2, _ := db.NewSnapshot()
				snap.Close() // our extra reference
				s2.Close()
				vQuiesce()
			}
			calls++
		}
	}
	err := db.StoreToDisk(dir, snap, 1, cb)
	if err != nil {
		vFail("fixture: StoreToDisk failed")
	}
	return
}

func vIsShard(name string) bool {
	for i := 0; i+6 <= len(name); i++ {
		if name[i:i+6] == "shard-" {
			return true
		}
	}
	return false
}

// H_C11: restore of a damaged backup terminates and returns an error or exactly the stored snapshot.
// Damage: up to two files, each removed, truncated at any offset, or with one byte altered at any offset.
func H_C11() {
	cfg, c := vConfig()
	if vBound("delta") == 1 {
		cfg.UseDeltaInterleaving()
	}
	DiskBlockSize = vBound("blocksize")
	dir := vFSDir() + "/c11"
	g := vStoreFixture(cfg, c, dir, vBound("items"))
	nfiles := vFSNumFiles()
	var names [12]string
	for i := 0; i < nfiles && i < 12; i++ {
		names[i] = vFSFileName(i)
	}
	ndam := vRange("ndamage", 0, 1, vBound("maxdamage"))
	prevFile := -1
	for d := 0; d < ndam; d++ {
		fi := vRange("file", d, prevFile+1, nfiles-1)
		prevFile = fi
		name := names[fi]
		sz := vFSSize(name)
		kind := vChoice("kind", d, 3)
		if ndam > 1 {
			// combinations: several shard files at once, each removed or truncated
			if kind == 2 || !vIsShard(name) {
				vAssume(false)
			}
		}
		switch kind {
		case 0:
			vFSRemove(name)
			vReach("file-removed")
		case 1:
			if sz <= 0 {
				vAssume(false)
			}
			vFSTruncate(name, vRange("trunc", d, 0, sz-1))
			vReach("file-truncated")
		case 2:
			if sz <= 0 {
				vAssume(false)
			}
			off := vRange("off", d, 0, sz-1)
			masks := [3]byte{0x01, 0x80, 0xff}
			m := masks[vChoice("mask", d, 3)]
			vFSSetByte(name, off, vFSGetByte(name, off)^m)
			vReach("byte-altered")
		}
	}
	db2 := NewWithConfig(cfg)
	snap2, err := db2.LoadFromDisk(dir, vRange("lconcurr", 0, 1, vBound("maxconc")), nil)
	if err == nil {
		if snap2 == nil {
			vFail("LoadFromDisk returned neither a snapshot nor an error")
			return
		}
		vReach("damage-tolerated")
		vScanCheck(db2, c, snap2, &g, "snapshot restored from a damaged backup")
	} else {
		vReach("damage-detected")
	}
	vReach("c11-done")
}

// H_C11_xor: content chosen against the checksum's algebra. A shard checksum is the XOR of per-record CRC-32s and
// CRC-32 is affine, so four equal-length records whose bytes XOR to zero contribute nothing to it. Seven concrete
// one-byte keys: with two shards the second shard holds exactly such a group {0x10,0x11,0x12,0x13}, its stored
// checksum is 0. Damage: any single byte of any shard file set to zero or XOR-ed with a mask, or a truncation.
// The restore must return an error or exactly the stored items.
func H_C11_xor() {
	cfg, c := vConfig()
	DiskBlockSize = vBound("blocksize")
	dir := vFSDir() + "/c11x"
	db := NewWithConfig(cfg)
	ws := vWriters(db, 1)
	var g vSetModel
	keys := [7]byte{1, 2, 3, 0x10, 0x11, 0x12, 0x13}
	for i, k := range keys {
		ws[0].Put2(c.item(k, byte(i+1)))
		g.put(int(k), c.val(byte(i+1)))
	}
	snap, _ := db.NewSnapshot()
	snap.Open()
	if db.StoreToDisk(dir, snap, 1, nil) != nil {
		vFail("fixture: StoreToDisk failed")
	}
	nfiles := vFSNumFiles()
	fi := vRange("file", 0, 0, nfiles-1)
	name := vFSFileName(fi)
	if !vIsShard(name) {
		vAssume(false)
	}
	sz := vFSSize(name)
	if sz <= 0 {
		vAssume(false)
	}
	off := vRange("off", 0, 0, sz-1)
	switch vChoice("kind", 0, 3) {
	case 0:
		if vFSGetByte(name, off) == 0 {
			vAssume(false) // not a damage
		}
		vFSSetByte(name, off, 0)
		vReach("byte-zeroed")
	case 1:
		masks := [3]byte{0x01, 0x80, 0xff}
		vFSSetByte(name, off, vFSGetByte(name, off)^masks[vChoice("mask", 0, 3)])
	case 2:
		vFSTruncate(name, off)
	}
	db2 := NewWithConfig(cfg)
	snap2, err := db2.LoadFromDisk(dir, vRange("lconcurr", 0, 1, 2), nil)
	if err == nil {
		if snap2 == nil {
			vFail("LoadFromDisk returned neither a snapshot nor an error")
			return
		}
		vReach("damage-tolerated")
		vScanCheck(db2, c, snap2, &g, "snapshot restored from a damaged backup")
	} else {
		vReach("damage-detected")
	}
	vReach("c11-xor-done")
}

// H_C12_budget: if writes start failing at any byte budget, StoreToDisk must not report success for a backup
// that cannot be restored.
func H_C12_budget() {
	cfg, c := vConfig()
	if vBound("delta") == 1 {
		cfg.UseDeltaInterleaving()
	}
	DiskBlockSize = vBound("blocksize")
	dir := vFSDir() + "/c12"
	db := NewWithConfig(cfg)
	ws := vWriters(db, 1)
	w := ws[0]
	var g vSetModel
	n := vBound("items")
	for i := 0; i < n; i++ {
		k := byte(10 + 7*i)
		w.Put2(c.item(k, byte(i+1)))
		g.put(int(k), c.val(byte(i+1)))
	}
	snap, _ := db.NewSnapshot()
	snap.Open()
	vFault()
	err := db.StoreToDisk(dir, snap, 1, nil)
	vFaultCovered()
	vFSHeal()
	if err != nil {
		vReach("store-failed")
		vReach("c12-budget-done")
		return
	}
	vReach("store-succeeded")
	db2 := NewWithConfig(cfg)
	snap2, lerr := db2.LoadFromDisk(dir, 1, nil)
	vAssert(lerr == nil && snap2 != nil, "a backup reported as successful can be restored")
	if lerr == nil && snap2 != nil {
		vScanCheck(db2, c, snap2, &g, "restore of a backup reported as successful")
	}
	vReach("c12-budget-done")
}

// vFault arms the fault oracle for the backup that follows: bound faultmode 0 = the disk fills after a symbolic
// number of bytes (0..maxbudget) and every later write fails; 1 = one single file operation (create, Write, Close
// of a written file, WriteFile; index 0..maxbudget) fails on its own and everything else succeeds.
var vFaultK int

// vFaultCovered: the range of failing indices reaches past the last operation the backup performs (so every
// operation of it was made to fail on some path)
func vFaultCovered() {
	if vBound("faultmode") == 1 && vFSOps() <= vFaultK {
		vReach("failop-beyond-last-operation")
	}
}

func vFault() {
	if vBound("faultmode") == 1 {
		vFaultK = vRange("failop", 0, 0, vBound("maxbudget"))
		vFSFailOp(vFaultK)
	} else {
		vFSBudget(vRange("budget", 0, 0, vBound("maxbudget")))
	}
}

// H_C12_delta: disk-full budgets for a delta-mode backup with two writers while a mutation inside the item
// callback makes the collector hand a dead item to one of the writers' delta files (which worker receives the
// garbage list is a scheduling choice: deviations budget). Every delta file's flush/close failure must surface.
func H_C12_delta() {
	cfg, c := vConfig()
	cfg.UseDeltaInterleaving()
	DiskBlockSize = vBound("blocksize")
	dir := vFSDir() + "/c12d"
	db := NewWithConfig(cfg)
	ws := vWriters(db, 2)
	w := ws[0]
	var g vSetModel
	n := vBound("items")
	for i := 0; i < n; i++ {
		k := byte(10 + 7*i)
		w.Put2(c.item(k, byte(i+1)))
		g.put(int(k), c.val(byte(i+1)))
	}
	snap, _ := db.NewSnapshot()
	snap.Open()
	snap.Close() // only the reference handed to StoreToDisk stays: the collector can run during the backup
	calls := 0
	cb := func(e *ItemEntry) {
		if calls == 0 {
			k := byte(10 + 7*vRange("mkey", 0, 0, n-1))
			w.Delete(c.item(k, 0))
			s2, _ := db.NewSnapshot()
			s2.Close()
			vQuiesce()
			if db.GetLastGCSn() > 0 {
				vReach("gc-ran-during-backup")
			}
		}
		calls++
	}
	if vBound("faultmode") == 2 {
		// crash clause: the process dies after a symbolic number of file-system mutations
		vFSCrashAt(vRange("crash", 0, 0, vBound("maxbudget")))
		db.StoreToDisk(dir, snap, 1, cb)
		if !vFSFrozen() {
			vReach("store-completed-before-crash-point")
		}
		vFSHeal()
		db2 := NewWithConfig(cfg)
		snap2, lerr := db2.LoadFromDisk(dir, 1, nil)
		if lerr == nil {
			if snap2 == nil {
				vFail("LoadFromDisk returned neither a snapshot nor an error")
				return
			}
			vReach("partial-image-restored")
			vScanCheck(db2, c, snap2, &g, "restore of what a crashed backup left behind")
		} else {
			vReach("partial-image-rejected")
		}
		vReach("c12-delta-done")
		return
	}
	vFault()
	err := db.StoreToDisk(dir, snap, 1, cb)
	vFaultCovered()
	vFSHeal()
	if err != nil {
		vReach("store-failed")
		vReach("c12-delta-done")
		return
	}
	vReach("store-succeeded")
	db2 := NewWithConfig(cfg)
	snap2, lerr := db2.LoadFromDisk(dir, 1, nil)
	vAssert(lerr == nil && snap2 != nil, "a backup reported as successful can be restored")
	if lerr == nil && snap2 != nil {
		vScanCheck(db2, c, snap2, &g, "restore of a backup reported as successful")
	}
	vReach("c12-delta-done")
}

// H_C12_crash: the process dies after any number of file-system mutations of StoreToDisk into an empty
// directory; restoring what is left returns an error or exactly the stored snapshot.
func H_C12_crash() {
	cfg, c := vConfig()
	if vBound("delta") == 1 {
		cfg.UseDeltaInterleaving()
	}
	DiskBlockSize = vBound("blocksize")
	dir := vFSDir() + "/c12c"
	db := NewWithConfig(cfg)
	ws := vWriters(db, 1)
	w := ws[0]
	var g vSetModel
	n := vBound("items")
	for i := 0; i < n; i++ {
		k := byte(10 + 7*i)
		w.Put2(c.item(k, byte(i+1)))
		g.put(int(k), c.val(byte(i+1)))
	}
	snap, _ := db.NewSnapshot()
	snap.Open()
	vFSCrashAt(vRange("crash", 0, 0, vBound("maxcrash")))
	db.StoreToDisk(dir, snap, 1, nil)
	if !vFSFrozen() {
		vReach("store-completed-before-crash-point")
	}
	vFSHeal()
	db2 := NewWithConfig(cfg)
	snap2, lerr := db2.LoadFromDisk(dir, 1, nil)
	if lerr == nil {
		if snap2 == nil {
			vFail("LoadFromDisk returned neither a snapshot nor an error")
			return
		}
		vReach("partial-image-restored")
		vScanCheck(db2, c, snap2, &g, "restore of what a crashed backup left behind")
	} else {
		vReach("partial-image-rejected")
	}
	vReach("c12-crash-done")
}
