package nitro

// H_C01: snapshot isolation. Symbolic histories of Put/Delete by two writers, NewSnapshot, Close in any
// order, and "let the GC/free workers run" points; after every operation every open snapshot must still
// present exactly the set that was live when it was created (items, order, bytes, Count).
func H_C01() {
	cfg, c := vConfig()
	db := NewWithConfig(cfg)
	ws := vWriters(db, 2)
	nops := vBound("ops")
	var model vSetModel
	var snaps [8]*Snapshot
	var ghosts [8]vSetModel
	var open [8]bool
	ns := 0
	for i := 0; i < nops; i++ {
		w := ws[vChoice("w", i, 2)]
		switch vChoice("op", i, 5) {
		case 0:
			k, v := vByte("key", i), vByte("val", i)
			n := w.Put2(c.item(k, v))
			vAssert((n != nil) == model.put(int(k), c.val(v)), "Put result")
		case 1:
			k := vByte("key", i)
			ok := w.Delete(c.item(k, 0))
			vAssert(ok == model.del(int(k)), "Delete result")
		case 2:
			if ns >= 8 {
				vAssume(false)
			}
			s, err := db.NewSnapshot()
			vAssert(err == nil && s != nil, "NewSnapshot succeeds")
			snaps[ns], ghosts[ns], open[ns] = s, model, true
			ns++
		case 3:
			if ns == 0 {
				vAssume(false)
			}
			j := vRange("snap", i, 0, ns-1)
			if !open[j] {
				vAssume(false)
			}
			snaps[j].Close()
			open[j] = false
			for x := j + 1; x < ns; x++ {
				if open[x] {
					vReach("older-closed-before-newer")
				}
			}
			for x := 0; x < j; x++ {
				if open[x] {
					vReach("newer-closed-before-older")
				}
			}
		case 4:
			vQuiesce() // GC and free workers run to completion here
			if db.GetLastGCSn() > 0 {
				vReach("gc-ran")
			}
		}
		for j := 0; j < ns; j++ {
			if open[j] {
				vScanCheck(db, c, snaps[j], &ghosts[j], "open snapshot after op")
			}
		}
	}
	vQuiesce()
	for j := 0; j < ns; j++ {
		if open[j] {
			vScanCheck(db, c, snaps[j], &ghosts[j], "open snapshot at end")
		}
	}
	vReach("c01-done")
}
