package nitro

import (
	"unsafe"

	"github.com/couchbase/nitro/skiplist"
)

// vStoreMeasure walks level 0 of the item store (in-package access, no hook) and measures what is linked.
type vStoreM struct {
	nodes int
	mem   int64
	dead  int // linked nodes whose item carries a deadSn
	dist  [skiplist.MaxLevel + 1]int64
}

// vDistOK: the per-level node counts behind NodeCount equal what the walk measured (a node is counted on its
// own level when inserted and must be taken off the same level when unlinked).
func vDistOK(st *skiplist.StatsReport, m *vStoreM) bool {
	ok := true
	for l := 0; l <= skiplist.MaxLevel; l++ {
		ok = vAnd(ok, st.NodeDistribution[l] == m.dist[l])
	}
	return ok
}

func vStoreWalk(db *Nitro) (m vStoreM) {
	buf := db.store.MakeBuf()
	it := db.store.NewIterator(db.iterCmp, buf)
	for it.SeekFirst(); it.Valid(); it.Next() {
		n := it.GetNode()
		m.nodes++
		m.mem += int64(db.store.Size(n))
		m.dist[n.Level()]++
		if (*Item)(n.Item()).deadSn != 0 {
			m.dead++
		}
		if m.nodes > 14 {
			vFail("store walk does not terminate")
		}
	}
	it.Close()
	return
}

// H_C06: garbage collection is precise and complete (sequential histories, coarse worker schedules).
// Symbolic history with closes in any order; at the end every snapshot is closed, the workers drain, GC() is
// forced: node count, soft deletes, ItemsCount, MemoryInUse and GetLastGCSn must be exactly what the live items
// account for. While snapshots are open, everything they can see must still be delivered (precision).
func H_C06() {
	cfg, c := vConfig()
	db := NewWithConfig(cfg)
	ws := vWriters(db, 2)
	nops := vBound("ops")
	var model vSetModel
	var snaps [8]*Snapshot
	var ghosts [8]vSetModel
	var open [8]bool
	ns := 0
	for i := 0; i < nops; i++ {
		w := ws[vChoice("w", i, 2)]
		switch vChoice("op", i, 5) {
		case 0:
			k, v := vByte("key", i), vByte("val", i)
			n := w.Put2(c.item(k, v))
			vAssert((n != nil) == model.put(int(k), c.val(v)), "Put result")
		case 1:
			k := vByte("key", i)
			ok := w.Delete(c.item(k, 0))
			vAssert(ok == model.del(int(k)), "Delete result")
			if ok {
				vReach("deleted-something")
			}
		case 2:
			if ns >= 8 {
				vAssume(false)
			}
			s, err := db.NewSnapshot()
			vAssert(err == nil && s != nil, "NewSnapshot succeeds")
			snaps[ns], ghosts[ns], open[ns] = s, model, true
			ns++
		case 3:
			if ns == 0 {
				vAssume(false)
			}
			j := vRange("snap", i, 0, ns-1)
			if !open[j] {
				vAssume(false)
			}
			snaps[j].Close()
			open[j] = false
		case 4:
			vQuiesce()
			// precision: whatever an open snapshot can see is still there
			for j := 0; j < ns; j++ {
				if open[j] {
					vScanCheck(db, c, snaps[j], &ghosts[j], "open snapshot after workers ran")
				}
			}
		}
	}
	// final snapshot so that every deletion is stamped and counted, then close everything
	last, err := db.NewSnapshot()
	vAssert(err == nil && last != nil, "final NewSnapshot succeeds")
	lastSn := last.sn
	vAssert(db.ItemsCount() == int64(model.count()), "ItemsCount equals live items")
	order := vChoice("finalorder", 0, 2)
	if order == 0 {
		last.Close()
	}
	for j := 0; j < ns; j++ {
		if open[j] {
			snaps[j].Close()
		}
	}
	if order == 1 {
		last.Close()
	}
	vQuiesce()
	db.GC()
	vQuiesce()
	m := vStoreWalk(db)
	vAssert(m.nodes == model.count(), "completeness: only live items remain linked once every snapshot is closed")
	vAssert(m.dead == 0, "completeness: no dead version remains linked")
	st := db.aggrStoreStats()
	vAssert(st.NodeCount == model.count(), "node_count equals live items")
	vAssert(vDistOK(&st, &m), "per-level node counts equal the walk")
	vAssert(st.SoftDeletes == 0, "soft_deletes is zero at quiescence")
	vAssert(st.Memory == m.mem, "store memory equals the sum over linked nodes and items")
	vAssert(db.MemoryInUse() == m.mem, "MemoryInUse equals what the live items account for (snapshot lists empty)")
	vAssert(db.GetLastGCSn() == lastSn, "collector advanced to the last closed snapshot")
	if cfg.useMemoryMgmt {
		vAssert(st.NodeAllocs-st.NodeFrees == int64(model.count()), "allocations minus frees equals live nodes")
	}
	vReach("c06-done")
}

// H_C07: every block obtained from the allocator is returned exactly once by Close (user-managed memory).
func H_C07() {
	cfg, c := vConfig()
	db := NewWithConfig(cfg)
	ws := vWriters(db, 2)
	nops := vBound("ops")
	var model vSetModel
	var snaps [8]*Snapshot
	var open [8]bool
	ns := 0
	for i := 0; i < nops; i++ {
		w := ws[vChoice("w", i, 2)]
		switch vChoice("op", i, 5) {
		case 0:
			k, v := vByte("key", i), vByte("val", i)
			n := w.Put2(c.item(k, v))
			vAssert((n != nil) == model.put(int(k), c.val(v)), "Put result")
			if n == nil {
				vReach("rejected-put")
			}
		case 1:
			k := vByte("key", i)
			ok := w.Delete(c.item(k, 0))
			vAssert(ok == model.del(int(k)), "Delete result")
		case 2:
			if ns >= 8 {
				vAssume(false)
			}
			s, err := db.NewSnapshot()
			vAssert(err == nil && s != nil, "NewSnapshot succeeds")
			snaps[ns], open[ns] = s, true
			ns++
		case 3:
			if ns == 0 {
				vAssume(false)
			}
			j := vRange("snap", i, 0, ns-1)
			if !open[j] {
				vAssume(false)
			}
			snaps[j].Close()
			open[j] = false
		case 4:
			vQuiesce()
		}
	}
	for j := 0; j < ns; j++ {
		if open[j] {
			snaps[j].Close()
		}
	}
	db.Close()
	vAssert(vLiveBlocks() == 0, "every allocated block was returned by Close")
	vReach("c07-done")
}

var _ = unsafe.Pointer(nil)
var _ = skiplist.MaxLevel

// H_C07_restore: an instance populated by LoadFromDisk (user-managed memory) must also return every block by Close.
func H_C07_restore() {
	cfg, c := vConfig()
	if vBound("delta") == 1 {
		cfg.UseDeltaInterleaving()
	}
	DiskBlockSize = vBound("blocksize")
	db := NewWithConfig(cfg)
	ws := vWriters(db, 1)
	n := vRange("nitems", 0, 0, vBound("items"))
	var g vSetModel
	for i := 0; i < n; i++ {
		k := vByte("key", i)
		if ws[0].Put2(c.item(k, byte(i+1))) != nil {
			g.put(int(k), c.val(byte(i+1)))
		}
	}
	snap, _ := db.NewSnapshot()
	snap.Open()
	dir := vFSDir() + "/c07r"
	vAssert(db.StoreToDisk(dir, snap, 1, nil) == nil, "StoreToDisk succeeds")
	snap.Close()
	db.Close()
	vAssert(vLiveBlocks() == 0, "source instance returned every block")
	db2 := NewWithConfig(cfg)
	snap2, err := db2.LoadFromDisk(dir, vRange("lconcurr", 0, 1, 2), nil)
	vAssert(err == nil && snap2 != nil, "LoadFromDisk succeeds")
	if err != nil || snap2 == nil {
		return
	}
	vScanCheck(db2, c, snap2, &g, "restored snapshot")
	if vChoice("postop", 0, 2) == 1 {
		w2 := db2.NewWriter()
		w2.rand = vRand("w2")
		w2.Delete(c.item(vByte("dkey", 0), 0))
		s3, _ := db2.NewSnapshot()
		s3.Close()
	}
	snap2.Close()
	db2.Close()
	vAssert(vLiveBlocks() == 0, "an instance populated by LoadFromDisk returns every block by Close")
	vReach("c07-restore-done")
}

// H_C07_nodelist: nodes returned by Put2 are chained in a NodeList (the package's own helper; it uses the nodes'
// link field, which the garbage and free lists use too). One of them is taken out of the list (its own link keeps
// pointing at its former successor) and deleted through Writer.DeleteNode, in the epoch it was born in or in a
// later one; then snapshots churn, the workers drain and everything is closed. Every block must come back exactly
// once: the reclaimer must not follow a stale link into nodes that are still live.
func H_C07_nodelist() {
	cfg, c := vConfig()
	db := NewWithConfig(cfg)
	ws := vWriters(db, 1)
	w := ws[0]
	n := vBound("items")
	l := NewNodeList(nil)
	var nodes [6]*skiplist.Node
	for i := 0; i < n; i++ {
		k := byte(10 + 7*i)
		nodes[i] = w.Put2(c.item(k, byte(i+1)))
		vAssert(nodes[i] != nil, "Put of a fresh key succeeds")
		l.Add(nodes[i])
	}
	vi := vRange("victim", 0, 0, n-1)
	vk := byte(10 + 7*vi)
	victim := l.Remove(c.item(vk, 0))
	vAssert(victim == nodes[vi], "NodeList.Remove returns the node with that key")
	var s1 *Snapshot
	if vChoice("laterepoch", 0, 2) == 1 {
		s1, _ = db.NewSnapshot() // the delete below becomes a cross-epoch delete
	}
	vAssert(w.DeleteNode(victim), "DeleteNode of a live node succeeds")
	s2, _ := db.NewSnapshot()
	vQuiesce()
	it := db.NewIterator(s2)
	cnt := 0
	for it.SeekFirst(); it.Valid(); it.Next() {
		_, _, ok := c.decode(it.Get())
		vAssert(ok, "remaining items are intact")
		cnt++
	}
	it.Close()
	vAssert(cnt == n-1, "every other item is still there")
	if s1 != nil {
		s1.Close()
	}
	s2.Close()
	vQuiesce()
	db.Close()
	vAssert(vLiveBlocks() == 0, "every allocated block was returned exactly once")
	vReach("c07-nodelist-done")
}
