package nitro

// H_EPOCHS: an epoch-structured history that reaches deeper than the free operation sequences.
// W writers each own one symbolic key. In each of E epochs every writer does nothing, Puts its key (with a fresh
// symbolic value) or Deletes it; a snapshot is taken at the end of every epoch. Then snapshots are closed one
// at a time in a forked order, the workers drain after every close, and every snapshot still open must scan
// exactly as at its creation (C01). When "closeall" is set, everything is closed at the end, GC() is forced and
// the C06 accounting (and with user-managed memory the C07 accounting after Close()) is checked.
// vEpochHistory runs the epoch-structured history: W writers, each owning K symbolic keys (all distinct); in every
// epoch, for every owned key, the writer does nothing, Puts it (fresh symbolic value) or Deletes it; one snapshot per
// epoch. Returns the snapshots with their ghost records and the final reference set.
func vEpochHistory(db *Nitro, c vCfgT, ws []*Writer, W, K, E int) (snaps [4]*Snapshot, ghosts [4]vSetModel, model vSetModel) {
	var keys [6]byte
	for i := 0; i < W*K; i++ {
		keys[i] = vByte("key", i)
		for x := 0; x < i; x++ {
			vAssume(keys[x] != keys[i])
		}
	}
	for e := 0; e < E; e++ {
		for w := 0; w < W; w++ {
			for k := 0; k < K; k++ {
				slot := (e*3+w)*2 + k
				key := keys[w*K+k]
				switch vChoice("act", slot, 3) {
				case 1:
					v := vByte("val", slot)
					n := ws[w].Put2(c.item(key, v))
					vAssert((n != nil) == model.put(int(key), c.val(v)), "Put result")
				case 2:
					ok := ws[w].Delete(c.item(key, 0))
					vAssert(ok == model.del(int(key)), "Delete result")
					if ok {
						vReach("epoch-delete")
					}
				}
			}
		}
		s, err := db.NewSnapshot()
		vAssert(err == nil && s != nil, "NewSnapshot succeeds")
		vAssert(db.ItemsCount() == int64(model.count()), "ItemsCount equals reference set size")
		snaps[e], ghosts[e] = s, model
	}
	return
}

func H_EPOCHS() {
	cfg, c := vConfig()
	db := NewWithConfig(cfg)
	W := vBound("writers")
	E := vBound("epochs")
	ws := vWriters(db, W)
	snaps, ghosts, model := vEpochHistory(db, c, ws, W, 1, E)
	var open [4]bool
	for e := 0; e < E; e++ {
		open[e] = true
	}
	lastSn := snaps[E-1].sn
	nclose := vRange("ncloses", 0, 0, E)
	if vBound("closeall") == 1 {
		nclose = E
	}
	for i := 0; i < nclose; i++ {
		// the i-th close picks one of the snapshots still open
		var cand [4]int
		nc := 0
		for x := 0; x < E; x++ {
			if open[x] {
				cand[nc] = x
				nc++
			}
		}
		j := cand[vRange("close", i, 0, nc-1)]
		snaps[j].Close()
		open[j] = false
		for x := 0; x < j; x++ {
			if open[x] {
				vReach("newer-closed-while-older-open")
			}
		}
		vQuiesce()
		for x := E - 1; x >= 0; x-- { // newest first: a scan unlinks marked nodes it crosses and could repair what a newer snapshot shows
			if open[x] {
				vScanCheck(db, c, snaps[x], &ghosts[x], "open snapshot after another was closed and collected")
			}
		}
	}
	if vBound("closeall") == 1 {
		db.GC()
		vQuiesce()
		m := vStoreWalk(db)
		vAssert(m.nodes == model.count(), "completeness: only live items remain linked once every snapshot is closed")
		vAssert(m.dead == 0, "completeness: no dead version remains linked")
		st := db.aggrStoreStats()
		vAssert(st.NodeCount == model.count(), "node_count equals live items")
		vAssert(vDistOK(&st, &m), "per-level node counts equal the walk")
		vAssert(st.SoftDeletes == 0, "soft_deletes is zero at quiescence")
		vAssert(db.MemoryInUse() == m.mem, "MemoryInUse equals what the live items account for")
		vAssert(db.GetLastGCSn() == lastSn, "collector advanced to the last closed snapshot")
		if c.mm {
			vAssert(st.NodeAllocs-st.NodeFrees == int64(model.count()), "allocations minus frees equals live nodes")
			db.Close()
			vAssert(vLiveBlocks() == 0, "every allocated block was returned by Close")
		}
		vReach("epochs-closed-all")
	}
	vReach("epochs-done")
}

// H_C05E: backup/restore after an epoch-structured history (deeper version histories than H_C05 reaches): any of the
// epoch snapshots is stored (older ones have newer versions of their keys physically present) and restored.
func H_C05E() {
	cfg, c := vConfig()
	delta := vBound("delta") == 1
	if delta {
		cfg.UseDeltaInterleaving()
	}
	DiskBlockSize = vBound("blocksize")
	if r := vBound("vrate"); r > 0 {
		// the backup's visitor refreshes its iterators every 10000 steps; a small rate stands in for large shards
		cfg.refreshRate = r
	}
	db := NewWithConfig(cfg)
	E := vBound("epochs")
	K := vBound("keys")
	ws := vWriters(db, 1)
	snaps, ghosts, _ := vEpochHistory(db, c, ws, 1, K, E)
	j := vRange("snap", 0, 0, E-1)
	if j < E-1 {
		vReach("stored-older-snapshot")
	}
	g := ghosts[j]
	dir := vFSDir() + "/c05e"
	vAssert(snaps[j].Open(), "stored snapshot is open")
	// delta mode: during the backup (at the first item callback) every other snapshot is released, so the collector
	// works through the garbage lists of older and newer epochs while the delta writers are active
	closeDuring := delta && vChoice("closeduring", 0, 2) == 1
	calls := 0
	cb := func(e *ItemEntry) {
		if calls == 0 && closeDuring {
			for x := 0; x < E; x++ {
				snaps[x].Close()
			}
			vQuiesce()
			if db.GetLastGCSn() > 0 {
				vReach("gc-ran-during-backup")
			}
		}
		calls++
	}
	err := db.StoreToDisk(dir, snaps[j], vRange("concurr", 0, 1, vBound("maxconc")), cb)
	vAssert(err == nil, "StoreToDisk succeeds")
	if err != nil {
		return
	}
	db2 := NewWithConfig(cfg)
	snap2, err := db2.LoadFromDisk(dir, 1, nil)
	vAssert(err == nil && snap2 != nil, "LoadFromDisk of a successful backup succeeds")
	if err != nil || snap2 == nil {
		return
	}
	vScanCheck(db2, c, snap2, &g, "restored snapshot")
	if delta && db2.DeltaRestored > 0 {
		vReach("delta-item-restored")
	}
	vReach("c05e-done")
}

// H_C10E: Visitor after an epoch-structured history.
func H_C10E() {
	cfg, c := vConfig()
	if r := vBound("vrate"); r > 0 {
		// the visitor's iterators refresh every 10000 steps; a small rate stands in for large databases
		cfg.refreshRate = r
	}
	db := NewWithConfig(cfg)
	E := vBound("epochs")
	K := vBound("keys")
	ws := vWriters(db, 1)
	snaps, ghosts, _ := vEpochHistory(db, c, ws, 1, K, E)
	j := vRange("snap", 0, 0, E-1)
	g := &ghosts[j]
	shards := vRange("shards", 0, 1, vBound("maxshards"))
	var logK, logV, logS [12]int
	nlog := 0
	cb := func(itm *Item, shard int) error {
		k, v, ok := c.decode(itm.Bytes())
		if !ok {
			vFail("visitor item bytes have an unexpected shape")
		}
		if nlog >= 12 {
			vFail("visitor delivered more items than were ever inserted")
		}
		logK[nlog], logV[nlog], logS[nlog] = k, v, shard
		nlog++
		return nil
	}
	err := db.Visitor(snaps[j], cb, shards, vRange("conc", 0, 1, vBound("maxconc")))
	vAssert(err == nil, "Visitor returns nil when no callback failed")
	vAssert(nlog == g.count(), "every visible item is delivered exactly once over all shards")
	for a := 0; a < nlog; a++ {
		vAssert(g.hasKV(logK[a], logV[a]), "delivered item is visible in the snapshot")
		for b := a + 1; b < nlog; b++ {
			vAssert(logK[a] != logK[b], "no item is delivered twice")
			if logS[a] <= logS[b] {
				vAssert(logK[a] < logK[b], "ascending within a shard and across ordered shards")
			} else {
				vAssert(logK[a] > logK[b], "every item of shard i precedes every item of shard i+1")
			}
		}
	}
	if shards > 1 && nlog > 1 {
		vReach("multi-shard-visit")
	}
	vReach("c10e-done")
}

// H_C09E: iterator positioning after an epoch-structured history.
func H_C09E() {
	cfg, c := vConfig()
	db := NewWithConfig(cfg)
	E := vBound("epochs")
	K := vBound("keys")
	ws := vWriters(db, 1)
	snaps, ghosts, _ := vEpochHistory(db, c, ws, 1, K, E)
	j := vRange("snap", 0, 0, E-1)
	g := &ghosts[j]
	it := db.NewIterator(snaps[j])
	if it == nil {
		vFail("NewIterator returned nil for an open snapshot")
		return
	}
	it.SetRefreshRate(vRange("rate", 0, 0, vBound("maxrate")))
	q := -1
	if vChoice("seekmode", 0, 2) == 0 {
		it.SeekFirst()
	} else {
		qb := vByte("q", 0)
		q = int(qb)
		it.Seek(c.item(qb, 0))
	}
	exp := 0
	for i := 0; i < g.n; i++ {
		exp += vB2I(vAnd(g.present[i], g.key[i] >= q))
	}
	cnt := 0
	last := -1
	for it.Valid() {
		if vChoice("refresh", cnt, 2) == 1 {
			it.Refresh()
			vReach("explicit-refresh")
			if !it.Valid() {
				vFail("Refresh invalidated a valid iterator")
			}
		}
		k, v, ok := c.decode(it.Get())
		vAssert(ok, "item bytes have the stored shape")
		vAssert(k >= q, "item is not below the seek key")
		vAssert(k > last, "observed keys strictly ascending (no repeats)")
		vAssert(g.hasKV(k, v), "observed item is visible in the snapshot with exactly these bytes")
		last = k
		cnt++
		if cnt > 10 {
			vFail("iterator does not terminate")
		}
		it.Next()
	}
	it.Close()
	vAssert(cnt == exp, "every visible item >= seek key is observed exactly once, then Valid turns false")
	vReach("c09e-done")
}
