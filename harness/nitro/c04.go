package nitro

import "sync"

// H_C04_gc: user-managed memory at the Nitro level. A reader scans the latest snapshot (passing over a dead
// version that an older snapshot pins) while another goroutine closes the older snapshot, which lets the
// collection worker unlink that version and the free worker return it to the allocator.
// Any access to a freed node or item is a trap.
func H_C04_gc() {
	cfg, c := vConfig()
	db := NewWithConfig(cfg)
	ws := vWriters(db, 1)
	w := ws[0]
	ka, kb := vByte("ka", 0), vByte("kb", 0)
	vAssume(ka != kb)
	w.Put2(c.item(ka, 1))
	w.Put2(c.item(kb, 2))
	s1, _ := db.NewSnapshot()
	w.Delete(c.item(ka, 0)) // dead version of ka: lands in the garbage list of the next snapshot (sOld2)
	sOld2, _ := db.NewSnapshot()
	if vChoice("reinsert", 0, 2) == 1 {
		w.Put2(c.item(ka, 3))
	}
	s2, _ := db.NewSnapshot() // the reader's snapshot: the dead version is invisible to it but physically present
	refresh := vRange("refreshrate", 0, 0, 1)
	var wg sync.WaitGroup
	wg.Add(2)
	vConcurrent(true)
	seen := 0
	go func() {
		vThread("R")
		it := db.NewIterator(s2)
		if it != nil {
			it.SetRefreshRate(refresh)
			for it.SeekFirst(); it.Valid(); it.Next() {
				_, _, ok := c.decode(it.Get())
				if !ok {
					vFail("reader saw an item with an unexpected shape")
				}
				seen++
				if seen > 4 {
					vFail("scan does not terminate")
				}
			}
			it.Close()
		}
		vThreadDone("R")
		wg.Done()
	}()
	go func() {
		vThread("C")
		s1.Close()
		sOld2.Close() // now the collector may unlink and free the dead version
		vThreadDone("C")
		wg.Done()
	}()
	wg.Wait()
	vConcurrent(false)
	vQuiesce()
	if db.GetLastGCSn() >= sOld2.sn {
		vReach("dead-version-collected-while-reader-snapshot-open")
	}
	s2.Close()
	db.Close()
	vAssert(vLiveBlocks() == 0, "every block returned after Close")
	vReach("c04-gc-done")
}

// H_C04_visitor: user-managed memory; a Visitor runs on snapshot S while the writer, from inside the item callback,
// deletes an item that was inserted after S was taken (a same-epoch delete: the node and item go to the access
// barrier at once, no snapshot pins them). The range-split pivots come from the raw store, so such an item can be
// one of them. The workers get to run after every later callback; the visitor's iterators refresh at rate 'vrate'.
// Any access to a freed node or item is a trap.
func H_C04_visitor() {
	cfg, c := vConfig()
	cfg.refreshRate = vBound("vrate")
	db := NewWithConfig(cfg)
	ws := vWriters(db, 1)
	w := ws[0]
	n := vBound("items")
	var g vSetModel
	for i := 0; i < n; i++ {
		k := byte(10 + 7*i) // concrete ascending keys; the item born after the snapshot has a symbolic key
		w.Put2(c.item(k, byte(i+1)))
		g.put(int(k), c.val(byte(i+1)))
	}
	s, _ := db.NewSnapshot()
	kx := vByte("kx", 0)
	if w.Put2(c.item(kx, 9)) != nil {
		vReach("item-born-after-snapshot")
	}
	shards := vRange("shards", 0, 1, vBound("maxshards"))
	delAt := vRange("delat", 0, -1, n-1)
	calls, nlog := 0, 0
	cb := func(itm *Item, shard int) error {
		k, v, ok := c.decode(itm.Bytes())
		if !ok {
			vFail("visitor item bytes have an unexpected shape")
		}
		vAssert(g.hasKV(k, v), "delivered item is visible in the snapshot")
		nlog++
		if calls == delAt {
			if w.Delete(c.item(kx, 0)) {
				vReach("deleted-during-visit")
			}
		}
		if delAt >= 0 && calls >= delAt {
			vQuiesce()
		}
		calls++
		return nil
	}
	err := db.Visitor(s, cb, shards, 1)
	vAssert(err == nil, "Visitor returns nil when no callback failed")
	vAssert(nlog == g.count(), "every visible item is delivered exactly once")
	s.Close()
	db.Close()
	vAssert(vLiveBlocks() == 0, "every block returned after Close")
	vReach("c04-visitor-done")
}

// H_C04_close: user-managed memory; Close() is called while a backup (optionally in delta mode, where StoreToDisk
// gives up the real snapshot before it scans) is standing inside its item callback on a node of the store. Close
// must not free the structure under the scan: when the callback resumes, every access of the scan to a freed node
// or item is a trap. Afterwards everything has been returned exactly once.
func H_C04_close() {
	cfg, c := vConfig()
	if vBound("delta") == 1 {
		cfg.UseDeltaInterleaving()
	}
	DiskBlockSize = vBound("blocksize")
	db := NewWithConfig(cfg)
	ws := vWriters(db, 1)
	n := vBound("items")
	for i := 0; i < n; i++ {
		ws[0].Put2(c.item(byte(10+7*i), byte(i+1)))
	}
	snap, _ := db.NewSnapshot()
	dir := vFSDir() + "/c04c"
	started := make(chan bool, 1)
	resume := make(chan bool)
	stopAt := vRange("stopat", 0, 0, n-1)
	calls := 0
	cb := func(e *ItemEntry) {
		if calls == stopAt {
			started <- true
			<-resume
		}
		calls++
	}
	var wg sync.WaitGroup
	wg.Add(2)
	go func() {
		db.StoreToDisk(dir, snap, 1, cb) // owns the snapshot reference; may end with ErrShutdown
		wg.Done()
	}()
	<-started
	vReach("backup-inside-callback")
	closed := false
	go func() {
		db.Close()
		closed = true
		wg.Done()
	}()
	// Close gets as far as it can while the backup is parked (it may be polling with time.Sleep for the snapshot
	// list to drain, so "quiescence" is not reached: a few scheduling rounds are given instead)
	for i := 0; i < vBound("yields"); i++ {
		vYield()
	}
	if closed {
		vReach("close-returned-while-backup-parked")
	}
	resume <- true
	wg.Wait()
	vAssert(vLiveBlocks() == 0, "every block returned exactly once after Close and the backup finished")
	vReach("c04-close-done")
}
