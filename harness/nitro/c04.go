package nitro

import "sync"

// H_C04_gc: user-managed memory at the Nitro level. A reader scans the latest snapshot (passing over a dead
// version that an older snapshot pins) while another goroutine closes the older snapshot, which lets the
// collection worker unlink that version and the free worker return it to the allocator.
// Any access to a freed node or item is a trap.
func H_C04_gc() {
	cfg, c := vConfig()
	db := NewWithConfig(cfg)
	ws := vWriters(db, 1)
	w := ws[0]
	ka, kb := vByte("ka", 0), vByte("kb", 0)
	vAssume(ka != kb)
	w.Put2(c.item(ka, 1))
	w.Put2(c.item(kb, 2))
	s1, _ := db.NewSnapshot()
	w.Delete(c.item(ka, 0)) // dead version of ka: lands in the garbage list of the next snapshot (sOld2)
	sOld2, _ := db.NewSnapshot()
	if vChoice("reinsert", 0, 2) == 1 {
		w.Put2(c.item(ka, 3))
	}
	s2, _ := db.NewSnapshot() // the reader's snapshot: the dead version is invisible to it but physically present
	refresh := vRange("refreshrate", 0, 0, 1)
	var wg sync.WaitGroup
	wg.Add(2)
	vConcurrent(true)
	seen := 0
	go func() {
		vThread("R")
		it := db.NewIterator(s2)
		if it != nil {
			it.SetRefreshRate(refresh)
			for it.SeekFirst(); it.Valid(); it.Next() {
				_, _, ok := c.decode(it.Get())
				if !ok {
					vFail("reader saw an item with an unexpected shape")
				}
				seen++
				if seen > 4 {
					vFail("scan does not terminate")
				}
			}
			it.Close()
		}
		vThreadDone("R")
		wg.Done()
	}()
	go func() {
		vThread("C")
		s1.Close()
		sOld2.Close() // now the collector may unlink and free the dead version
		vThreadDone("C")
		wg.Done()
	}()
	wg.Wait()
	vConcurrent(false)
	vQuiesce()
	if db.GetLastGCSn() >= sOld2.sn {
		vReach("dead-version-collected-while-reader-snapshot-open")
	}
	s2.Close()
	db.Close()
	vAssert(vLiveBlocks() == 0, "every block returned after Close")
	vReach("c04-gc-done")
}
