package skiplist

// H_C18_builder: segments filled with ascending symbolic keys (sizes symbolic, empty segments allowed anywhere),
// assembled; result must be the concatenation, structurally sound with exact statistics, and must behave like an
// incrementally built list under later Insert/Delete/Lookup.
func H_C18_builder() {
	nseg := vBound("segs")
	per := vBound("perseg")
	b := NewBuilder()
	var segs []*Segment
	var model vModel
	total := 0
	prev := -1
	for s := 0; s < nseg; s++ {
		seg := b.NewSegment()
		segNames := [4]string{"seg0", "seg1", "seg2", "seg3"}
		seg.rand = vRand(segNames[s]) // scripted tower heights (engine: coins; native replay: recorded coins)
		sz := vRange("size", s, 0, per)
		if sz == 0 {
			vReach("empty-segment")
		}
		for j := 0; j < sz; j++ {
			k := int(vByte("key", total))
			vAssume(k > prev)
			prev = k
			seg.Add(vIntItem(k))
			model.add(k)
			total++
		}
		segs = append(segs, seg)
	}
	s := b.Assemble(segs...)
	buf := s.MakeBuf()
	m := vWalk(s, CompareInt, "assembled")
	vAssert(m.count == total, "assembled list holds every added item")
	for j := 0; j < m.count; j++ {
		vAssert(IntFromItem(m.nodes[j].Item()) == model.key[j], "content is the concatenation of the segments in order")
		if m.nodes[j].Level() > 0 {
			vReach("tall-node-in-segment")
		}
	}
	vCheckStats(s, &m)
	vAssert(s.GetStats().NodeAllocs == int64(total), "NodeAllocs equals items added")
	// later operations behave as on an incrementally built list
	rf := vRandFn("post")
	nops := vBound("ops")
	for i := 0; i < nops; i++ {
		k := int(vByte("pkey", i))
		switch vChoice("pop", i, 3) {
		case 0:
			_, ok := s.Insert2(vIntItem(k), CompareInt, nil, buf, rf, &s.Stats)
			vAssert(ok == model.add(k), "Insert after Assemble")
		case 1:
			ok := s.Delete(vIntItem(k), CompareInt, buf, &s.Stats)
			vAssert(ok == model.del(k), "Delete after Assemble")
		case 2:
			_, _, found := s.Lookup(vIntItem(k), CompareInt, buf, &s.Stats)
			vAssert(found == model.has(k), "Lookup after Assemble")
		}
		m2 := vWalk(s, CompareInt, "after-op")
		vAssert(m2.count == model.count(), "count after later op")
		vCheckStats(s, &m2)
	}
	vReach("c18-builder-done")
}

// H_C18_merge: a merge iterator over several lists; a symbolic script of SeekFirst / Seek(q) / Next.
// After every (re)positioning the items delivered must be the smallest items >= target across all inputs,
// in order, each input node at most once, and Valid must turn false exactly when they are exhausted.
func H_C18_merge() {
	nl := vBound("lists")
	per := vBound("perlist")
	var all [12]int
	na := 0
	var iters []*Iterator
	for l := 0; l < nl; l++ {
		s := New()
		buf := s.MakeBuf()
		sz := vRange("lsize", l, 0, per)
		for j := 0; j < sz; j++ {
			k := int(vByte("key", l*4+j))
			if s.Insert(vIntItem(k), CompareInt, buf, &s.Stats) {
				all[na] = k
				na++
			}
		}
		iters = append(iters, s.NewIterator(CompareInt, s.MakeBuf()))
	}
	mit := NewMergeIterator(iters)
	steps := vBound("steps")
	positioned := false
	target := -1
	pos := 0 // items delivered since the last positioning
	var seen [12]*Node
	check := func() {
		// number of items >= target overall
		tot := 0
		for i := 0; i < na; i++ {
			tot += vB2I(all[i] >= target)
		}
		if !mit.Valid() {
			vAssert(pos == tot, "merge iterator invalid exactly when all items >= target were delivered")
			return
		}
		x := IntFromItem(mit.Get())
		n := mit.GetNode()
		for i := 0; i < pos; i++ {
			if seen[i] == n {
				vFail("merge iterator delivered the same node twice after one positioning")
			}
		}
		seen[pos] = n
		less, leq := 0, 0
		for i := 0; i < na; i++ {
			less += vB2I(vAnd(all[i] >= target, all[i] < x))
			leq += vB2I(vAnd(all[i] >= target, all[i] <= x))
		}
		vAssert(x >= target, "delivered item is >= target")
		vAssert(less <= pos && pos < leq, "delivered item is the next smallest of the union")
	}
	for i := 0; i < steps; i++ {
		op := vChoice("mop", i, 3)
		switch op {
		case 0:
			mit.SeekFirst()
			if positioned && pos > 0 {
				vReach("reposition-mid-scan")
			}
			positioned, target, pos = true, -1, 0
			check()
		case 1:
			q := int(vByte("q", i))
			found := mit.Seek(vIntItem(q))
			if positioned && pos > 0 {
				vReach("reposition-mid-scan")
			}
			positioned, target, pos = true, q, 0
			ex := false
			for j := 0; j < na; j++ {
				ex = vOr(ex, all[j] == q)
			}
			vAssert(found == ex, "Seek reports whether the target is present")
			check()
		case 2:
			if !positioned || !mit.Valid() {
				vAssume(false)
			}
			mit.Next()
			pos++
			check()
		}
	}
	vReach("c18-merge-done")
}
