package skiplist

import (
	"sync"
	"unsafe"
)

// Ghost state of the barrier harnesses. It is only ever touched from harness code.
type vBarrierGhost struct {
	safety    bool // the run decides C16 (safety clauses) rather than C17 (liveness at quiescence)
	inside    [3]bool // accessor i currently holds a token (set after Acquire returned, cleared before Release is called)
	gen       [3]int  // number of Acquires completed by accessor i
	snapIn    [4][3]bool
	snapGen   [4][3]int
	destroyed [4]int
	order     [4]int
	ncalls    int
	refs      [4]*int
	fstart    [4]int // logical time at which flush k was called / returned (0 = not yet)
	fend      [4]int
}

func (g *vBarrierGhost) flushEntry(k int) {
	for i := 0; i < 3; i++ {
		g.snapIn[k][i] = g.inside[i]
		g.snapGen[k][i] = g.gen[i]
	}
}

func (g *vBarrierGhost) destructor(ref unsafe.Pointer) {
	k := -1
	for i := 1; i < 4; i++ {
		if unsafe.Pointer(g.refs[i]) == ref {
			k = i
		}
	}
	if k < 0 {
		vFail("destructor called with an object that was never flushed")
		return
	}
	g.destroyed[k]++
	g.ncalls++
	if !g.safety {
		return
	}
	if g.destroyed[k] > 1 {
		vFail("destructor ran twice for one flush")
	}
	for j := 1; j < 4; j++ {
		// flush j is earlier than flush k if it had returned before flush k was called (with a single flusher
		// that is simply j < k; two concurrent flushers may overlap, then neither is earlier)
		if j != k && g.fend[j] != 0 && g.fend[j] < g.fstart[k] && g.destroyed[j] == 0 {
			vFail("destructor ran before the destructor of an earlier flush")
		}
	}
	for i := 0; i < 3; i++ {
		if g.snapIn[k][i] && g.inside[i] && g.gen[i] == g.snapGen[k][i] {
			vFail("destructor ran while an accessor that entered before the flush is still inside")
		}
	}
}

// H_C16: access barrier used directly. Accessors (optionally nested) and a flusher (optionally holding a token
// itself); all interleavings of their atomic steps within the preemption bound.
// Safety (C16): ordered, exactly-once destruction, only after earlier accessors left; no "unsafe reclamation" panic.
// Liveness at quiescence (C17): once everybody is done, every flush has been destructed and the queue is empty.
func H_C16() {
	// bound prop: 16 = the safety clauses are asserted (C16), 17 = the liveness clauses at quiescence (C17); one
	// harness drives both, but a run only reports on the property it was started for
	g := &vBarrierGhost{safety: vBound("prop") == 16}
	for i := 1; i < 4; i++ {
		g.refs[i] = new(int)
	}
	ab := newAccessBarrier(true, g.destructor)
	nacc := vBound("accessors")
	nflush := vBound("flushes")
	nested := vBound("nested") == 1
	holder := vBound("flusherholds") == 1
	var wg sync.WaitGroup
	wg.Add(nacc + 1)
	vConcurrent(true)
	for a := 0; a < nacc; a++ {
		i := a
		go func() {
			names := [3]string{"acc0", "acc1", "acc2"}
			vThread(names[i])
			t := ab.Acquire()
			g.gen[i]++
			g.inside[i] = true
			if g.safety {
				vAssert(t != nil && t.closed == 0, "an accessor is never counted in a session that is already being destructed")
			}
			if nested {
				u := ab.Acquire()
				ab.Release(u)
			}
			g.inside[i] = false
			ab.Release(t)
			vThreadDone(names[i])
			wg.Done()
		}()
	}
	// flushers: 1 = one goroutine performs all flushes in sequence; 2 = two goroutines, flush 1 by the first and
	// the remaining ones by the second (their FlushSession calls may overlap)
	nfl := vBound("flushers")
	if nfl == 2 {
		wg.Add(1)
	}
	flusher := func(name string, from, to int) {
		vThread(name)
		var t *BarrierSession
		if holder {
			t = ab.Acquire()
		}
		for k := from; k <= to; k++ {
			g.flushEntry(k)
			g.fstart[k] = vClock()
			ab.FlushSession(unsafe.Pointer(g.refs[k]))
			g.fend[k] = vClock()
		}
		if holder {
			ab.Release(t)
		}
		vThreadDone(name)
		wg.Done()
	}
	if nfl == 2 {
		go flusher("flusher", 1, 1)
		go flusher("flusher2", 2, nflush)
	} else {
		go flusher("flusher", 1, nflush)
	}
	wg.Wait()
	vConcurrent(false)
	// quiescence: every token released, no call in progress
	if g.safety {
		vAssert(g.ncalls <= nflush, "C16: the destructor runs at most once per flush")
	} else {
		vAssert(g.ncalls == nflush, "C17: at quiescence the destructor has run for every FlushSession")
		alloc, freed, queued, _ := ab.GetStats()
		vAssert(queued == 0, "C17: free queue empty at quiescence")
		vAssert(alloc-1 == freed, "C17: every closed session was terminated")
	}
	vReach("c16-done")
}
