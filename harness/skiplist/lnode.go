package skiplist

import "unsafe"

// H_LNode: lemma L-node. On a node allocated by the real allocNode at a symbolic-by-fork level,
// setNext/getNext/dcasNext implement an abstract (ptr, deleted) cell per level and never disturb
// level, itm, Link, Cache or other levels' cells.
func H_LNode() {
	maxl := vBound("maxlevel")
	lvl := vRange("level", 0, 0, maxl)
	itm := unsafe.Pointer(new(int))
	n := allocNode(itm, lvl, nil)
	link := allocNode(nil, 0, nil)
	n.Link = unsafe.Pointer(link)
	n.Cache = int64(vInt("cache", 0))
	cache := n.Cache
	// a, b: arbitrary pointer values below 2^56 (the packing assumes an unused top byte); never dereferenced
	av, bv := uintptr(vInt("ptrA", 0)), uintptr(vInt("ptrB", 0))
	vAssume(av>>56 == 0 && bv>>56 == 0 && av != bv)
	a := (*Node)(unsafe.Pointer(av))
	b := (*Node)(unsafe.Pointer(bv))
	// arbitrary but legal initial cell contents at every level: a or b per level, chosen by a symbolic bit without
	// forking (the pointer value is an if-then-else term), so that all 2^(level+1) contents are one path
	for i := 0; i <= lvl; i++ {
		pv := uintptr(vIteInt(vBool("initA", i), int(av), int(bv)))
		n.setNext(i, (*Node)(unsafe.Pointer(pv)), false)
	}
	l := vRange("target", 0, 0, lvl)
	// remember other levels
	type cell struct {
		p *Node
		d bool
	}
	var before [MaxLevel + 1]cell
	for i := 0; i <= lvl; i++ {
		p, d := n.getNext(i)
		before[i] = cell{p, d}
	}
	op := vChoice("op", 0, 3)
	switch op {
	case 0: // setNext then getNext
		n.setNext(l, b, false)
		p, d := n.getNext(l)
		vAssert(p == b && !d, "getNext after setNext")
		before[l] = cell{b, false}
	case 1: // successful dcas that marks
		cur := before[l].p
		ok := n.dcasNext(l, cur, cur, false, true)
		vAssert(ok, "dcas mark succeeds on matching cell")
		p, d := n.getNext(l)
		vAssert(p == cur && d, "marked cell reads back")
		// a second dcas expecting unmarked must fail and change nothing
		ok2 := n.dcasNext(l, cur, a, false, false)
		vAssert(!ok2, "dcas on marked cell fails")
		p, d = n.getNext(l)
		vAssert(p == cur && d, "failed dcas leaves cell")
		before[l] = cell{cur, true}
	case 2: // dcas with wrong expected pointer fails; right one swings
		cur := before[l].p
		other := a
		if cur == a {
			other = b
		}
		ok := n.dcasNext(l, other, link, false, false)
		vAssert(!ok, "dcas with stale expected pointer fails")
		ok = n.dcasNext(l, cur, link, false, false)
		vAssert(ok, "dcas with current pointer succeeds")
		p, d := n.getNext(l)
		vAssert(p == link && !d, "swung cell reads back")
		before[l] = cell{link, false}
	}
	for i := 0; i <= lvl; i++ {
		p, d := n.getNext(i)
		vAssert(p == before[i].p && d == before[i].d, "other levels untouched")
	}
	vAssert(n.Level() == lvl, "level preserved")
	vAssert(n.itm == itm, "itm preserved")
	vAssert(n.Link == unsafe.Pointer(link), "Link preserved")
	vAssert(n.Cache == cache, "Cache preserved")
	vAssert(n.Size() == int(nodeHdrSize+uintptr(lvl+1)*nodeRefSize), "Size matches level")
	vReach("lnode-done")
}
