package skiplist

// H_C14_merge: one Merge of writer-local statistics into the global ones from an ARBITRARY pre-state (symbolic
// 64-bit counters; the two levels that carry non-trivial counts are forked over 0..MaxLevel, every other level is
// zero in the local copy and symbolic-free in the global one). Afterwards every global field is old + local, for
// every level up to and including MaxLevel, and the local copy is completely reset. One inductive step: it covers
// merges after histories of any length.
func H_C14_merge() {
	var g, l Stats
	l.IsLocal(true)
	l1 := vRange("lvl", 0, 0, MaxLevel)
	l2 := vRange("lvl", 1, l1, MaxLevel)
	c1, c2 := int64(vInt("cnt", 0)), int64(vInt("cnt", 1))
	l.levelNodesCount[l1] = c1
	if l2 != l1 {
		l.levelNodesCount[l2] = c2
	}
	l.softDeletes = int64(vInt("sd", 0))
	l.nodeAllocs = int64(vInt("na", 0))
	l.nodeFrees = int64(vInt("nf", 0))
	l.usedBytes = int64(vInt("ub", 0))
	l.insertConflicts = uint64(vInt("ic", 0))
	l.readConflicts = uint64(vInt("rc", 0))
	g.levelNodesCount[l1] = int64(vInt("gcnt", 0))
	g.levelNodesCount[l2] = int64(vInt("gcnt", 1))
	g.softDeletes = int64(vInt("gsd", 0))
	g.nodeAllocs = int64(vInt("gna", 0))
	g.nodeFrees = int64(vInt("gnf", 0))
	g.usedBytes = int64(vInt("gub", 0))
	g.insertConflicts = uint64(vInt("gic", 0))
	g.readConflicts = uint64(vInt("grc", 0))
	og, ol := g, l

	g.Merge(&l)

	for i := 0; i <= MaxLevel; i++ {
		vAssert(g.levelNodesCount[i] == og.levelNodesCount[i]+ol.levelNodesCount[i], "Merge adds the local per-level count at every level")
		vAssert(l.levelNodesCount[i] == 0, "Merge resets the local per-level count at every level")
	}
	vAssert(g.softDeletes == og.softDeletes+ol.softDeletes && l.softDeletes == 0, "Merge: soft deletes")
	vAssert(g.nodeAllocs == og.nodeAllocs+ol.nodeAllocs && l.nodeAllocs == 0, "Merge: node allocations")
	vAssert(g.nodeFrees == og.nodeFrees+ol.nodeFrees && l.nodeFrees == 0, "Merge: node frees")
	vAssert(g.usedBytes == og.usedBytes+ol.usedBytes && l.usedBytes == 0, "Merge: used bytes")
	vAssert(g.insertConflicts == og.insertConflicts+ol.insertConflicts && l.insertConflicts == 0, "Merge: insert conflicts")
	vAssert(g.readConflicts == og.readConflicts+ol.readConflicts && l.readConflicts == 0, "Merge: read conflicts")
	if l1 == MaxLevel || l2 == MaxLevel {
		vReach("top-level-count-merged")
	}
	vReach("c14-merge-done")
}
