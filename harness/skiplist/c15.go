package skiplist

import (
	"sync"
	"unsafe"
)

// H_C15: a skiplist iterator scanning while another goroutine inserts and deletes.
// Initial list: stable keys (never touched by the modifier) and one volatile key; all symbolic.
// Reader: Seek(x) or SeekFirst, then Get/Next to the end, with an optional Refresh at a forked position.
// Modifier (mod): 0 Insert(y), 1 Delete(v), 2 Delete(v);Insert(v), 3 DeleteNode(volatile node), 4 Delete(v);Insert(y)
func H_C15() {
	s := New()
	sb := s.MakeBuf()
	nst := vBound("stable")
	var stable [3]int
	prev := -1
	rf := vRandFn("setup")
	for i := 0; i < nst; i++ {
		k := int(vByte("s", i))
		vAssume(k > prev)
		prev = k
		stable[i] = k
		s.Insert2(vIntItem(k), CompareInt, nil, sb, rf, &s.Stats)
	}
	v := int(vByte("v", 0))
	for i := 0; i < nst; i++ {
		vAssume(v != stable[i])
	}
	vn, _ := s.Insert2(vIntItem(v), CompareInt, nil, sb, rf, &s.Stats)
	mod := vBound("mod")
	y := int(vByte("y", 0))
	if mod == 0 || mod == 4 {
		vAssume(y != v)
		for i := 0; i < nst; i++ {
			vAssume(y != stable[i])
		}
	}
	seek := vChoice("seek", 0, 2) == 1
	x := -1
	if seek {
		x = int(vByte("x", 0))
	}
	refreshAt := vRange("refreshat", 0, -1, vBound("maxrefresh"))
	interval := vRange("interval", 0, 0, vBound("maxinterval")) // automatic refresh every n-th Next (0 = never)
	var log [8]int
	nlog := 0
	finished := false
	var wg sync.WaitGroup
	wg.Add(2)
	vConcurrent(true)
	go func() {
		vThread("R")
		it := s.NewIterator(CompareInt, s.MakeBuf())
		if interval > 0 {
			it.SetRefreshInterval(interval)
		}
		if seek {
			it.Seek(vIntItem(x))
		} else {
			it.SeekFirst()
		}
		for it.Valid() {
			if nlog == refreshAt {
				it.Refresh()
				if !it.Valid() {
					break
				}
			}
			if nlog >= 8 {
				vFail("iterator does not terminate")
			}
			log[nlog] = IntFromItem(it.Get())
			nlog++
			it.Next()
		}
		finished = true
		it.Close()
		vThreadDone("R")
		wg.Done()
	}()
	go func() {
		vThread("M")
		b := s.MakeBuf()
		switch mod {
		case 0:
			s.Insert2(vIntItem(y), CompareInt, nil, b, vRandFn("m"), &s.Stats)
		case 1:
			s.Delete(vIntItem(v), CompareInt, b, &s.Stats)
		case 2:
			s.Delete(vIntItem(v), CompareInt, b, &s.Stats)
			s.Insert2(vIntItem(v), CompareInt, nil, b, vRandFn("m"), &s.Stats)
		case 3:
			s.DeleteNode(vn, CompareInt, b, &s.Stats)
		case 4: // delete the volatile key, then insert a different fresh key (e.g. right where the reader stands)
			s.Delete(vIntItem(v), CompareInt, b, &s.Stats)
			s.Insert2(vIntItem(y), CompareInt, nil, b, vRandFn("m"), &s.Stats)
		}
		vThreadDone("M")
		wg.Done()
	}()
	wg.Wait()
	vConcurrent(false)
	vAssert(finished, "scan finished")
	for i := 0; i < nlog; i++ {
		k := log[i]
		vAssert(k >= x, "returned item is >= the seek key")
		known := k == v
		if mod == 0 || mod == 4 {
			known = vOr(known, k == y)
		}
		for j := 0; j < nst; j++ {
			known = vOr(known, k == stable[j])
		}
		vAssert(known, "returned item was present at some moment during the scan")
		if i > 0 {
			vAssert(k >= log[i-1], "iterator never goes backwards")
			if mod == 2 {
				vAssert(vOr(k > log[i-1], k == v), "an equal item repeats only if it was deleted and re-inserted meanwhile")
			} else {
				vAssert(k > log[i-1], "no item repeats")
			}
		}
	}
	for j := 0; j < nst; j++ {
		seen := false
		for i := 0; i < nlog; i++ {
			seen = vOr(seen, log[i] == stable[j])
		}
		vAssert(vOr(stable[j] < x, seen), "every item present for the whole scan (and >= the start) is returned")
	}
	if nlog > 0 && seek {
		for j := 0; j < nst; j++ {
			vAssert(vNot(vAnd(stable[j] >= x, stable[j] < log[0])), "Seek lands with no stable item between the target and the first result")
		}
	}
	if nlog > 1 {
		vReach("scan-saw-several")
	}
	vReach("c15-done")
}

// H_C04_reader: user-managed node memory. A reader iterates (and reads items) while a deleter removes a node and
// hands it to the access barrier, whose destructor frees it. Any access to a freed block is a trap.
func H_C04_reader() {
	var s *Skiplist
	cfg := DefaultConfig()
	cfg.UseMemoryMgmt = true
	cfg.Malloc = func(n int) unsafe.Pointer { return vAlloc(n) }
	cfg.Free = func(p unsafe.Pointer) { vFree(p) }
	cfg.BarrierDestructor = func(ref unsafe.Pointer) {
		if ref != nil {
			s.FreeNode((*Node)(ref), &s.Stats)
		}
	}
	s = NewWithConfig(cfg)
	sb := s.MakeBuf()
	n0 := vBound("initial")
	var nodes [4]*Node
	prev := -1
	rf := vRandFn("setup")
	for i := 0; i < n0; i++ {
		k := int(vByte("k", i))
		vAssume(k > prev)
		prev = k
		nodes[i], _ = s.Insert2(vIntItem(k), CompareInt, nil, sb, rf, &s.Stats)
	}
	victim := vRange("victim", 0, 0, n0-1)
	seek := vChoice("seek", 0, 2) == 1
	x := int(vByte("x", 0))
	refreshAt := vRange("refreshat", 0, -1, vBound("maxrefresh"))
	var wg sync.WaitGroup
	wg.Add(2)
	live0 := vLiveBlocks()
	vConcurrent(true)
	go func() {
		vThread("R")
		it := s.NewIterator(CompareInt, s.MakeBuf())
		if seek {
			it.Seek(vIntItem(x))
		} else {
			it.SeekFirst()
		}
		n := 0
		for it.Valid() {
			if n == refreshAt {
				it.Refresh()
				if !it.Valid() {
					break
				}
			}
			_ = IntFromItem(it.Get()) // reads the item through the node
			_ = it.GetNode().Level()  // and the node itself
			n++
			if n > 8 {
				vFail("iterator does not terminate")
			}
			it.Next()
		}
		it.Close()
		vThreadDone("R")
		wg.Done()
	}()
	go func() {
		vThread("D")
		b := s.MakeBuf()
		if s.DeleteNode(nodes[victim], CompareInt, b, &s.Stats) {
			s.GetAccesBarrier().FlushSession(unsafe.Pointer(nodes[victim]))
		}
		vThreadDone("D")
		wg.Done()
	}()
	wg.Wait()
	vConcurrent(false)
	vAssert(vLiveBlocks() == live0-1, "the deleted node has been freed once every accessor left (nothing pending at quiescence)")
	// the structure is still sound and traversing it touches no freed block
	m := vWalk(s, CompareInt, "after")
	vAssert(m.count == n0-1, "remaining nodes")
	vReach("c04-reader-done")
}

// H_C04_insdel: an inserter publishing a height-1 node races with a deleter of the same key that flushes the node
// to the barrier. No node may be released while it is still linked at any level.
func H_C04_insdel() {
	var s *Skiplist
	cfg := DefaultConfig()
	cfg.UseMemoryMgmt = true
	cfg.Malloc = func(n int) unsafe.Pointer { return vAlloc(n) }
	cfg.Free = func(p unsafe.Pointer) { vFree(p) }
	cfg.BarrierDestructor = func(ref unsafe.Pointer) {
		if ref != nil {
			s.FreeNode((*Node)(ref), &s.Stats)
		}
	}
	s = NewWithConfig(cfg)
	sb := s.MakeBuf()
	// a level-1 node on each side so that level 1 is populated
	lo, k, hi := int(vByte("lo", 0)), int(vByte("k", 0)), int(vByte("hi", 0))
	vAssume(lo < k && k < hi)
	height := vBound("height")
	top := int32(height)
	if top < 1 {
		top = 1
	}
	s.Insert3(vIntItem(lo), CompareInt, nil, sb, 0, false, &s.Stats)
	atomicLevelUp(s, top)
	s.Insert3(vIntItem(hi), CompareInt, nil, sb, int(top), false, &s.Stats)
	var wg sync.WaitGroup
	wg.Add(2)
	vConcurrent(true)
	inserted := false
	go func() {
		vThread("I")
		_, inserted = s.Insert3(vIntItem(k), CompareInt, nil, s.MakeBuf(), height, false, &s.Stats)
		vThreadDone("I")
		wg.Done()
	}()
	deleted := false
	go func() {
		vThread("D")
		b := s.MakeBuf()
		token := s.barrier.Acquire()
		if s.findPath(vIntItem(k), CompareInt, b, &s.Stats) != nil {
			n := b.succs[0]
			if s.deleteNode(n, CompareInt, b, &s.Stats) {
				deleted = true
				s.barrier.FlushSession(unsafe.Pointer(n))
			}
		}
		s.barrier.Release(token)
		vThreadDone("D")
		wg.Done()
	}()
	wg.Wait()
	vConcurrent(false)
	vAssert(inserted, "insert of a fresh key succeeds")
	if deleted {
		vReach("insert-then-delete-overlap")
	}
	// traversals at every level must not touch a freed block, and the structure must be consistent
	_, _, found := s.Lookup(vIntItem(k), CompareInt, sb, &s.Stats)
	vAssert(found == !deleted, "lookup agrees with the outcome")
	m := vWalk(s, CompareInt, "after")
	exp := 3
	if deleted {
		exp = 2
	}
	vAssert(m.count == exp, "node count after the race")
	vCheckStats(s, &m)
	vReach("c04-insdel-done")
}

func atomicLevelUp(s *Skiplist, l int32) { s.level = l }

// H_C15_two: the scan runs while TWO other goroutines each delete one volatile node (DeleteNode, the by-node API
// the garbage collector uses); the volatile keys are symbolic, so they may be adjacent, and a deleter may be
// stalled between marking its node and unlinking it. Logical time stamps decide what the scan may return: an item
// whose delete had returned before the scan started must not be returned; stable items must all be returned.
func H_C15_two() {
	s := New()
	sb := s.MakeBuf()
	nst := vBound("stable")
	var stable [3]int
	prev := -1
	rf := vRandFn("setup")
	for i := 0; i < nst; i++ {
		k := int(vByte("s", i))
		vAssume(k > prev)
		prev = k
		stable[i] = k
		s.Insert2(vIntItem(k), CompareInt, nil, sb, rf, &s.Stats)
	}
	var vol [2]int
	var vn [2]*Node
	for j := 0; j < 2; j++ {
		vol[j] = int(vByte("v", j))
		for i := 0; i < nst; i++ {
			vAssume(vol[j] != stable[i])
		}
	}
	vAssume(vol[0] < vol[1])
	for j := 0; j < 2; j++ {
		vn[j], _ = s.Insert2(vIntItem(vol[j]), CompareInt, nil, sb, rf, &s.Stats)
	}
	seek := vChoice("seek", 0, 2) == 1
	x := -1
	if seek {
		x = int(vByte("x", 0))
	}
	var log [8]int
	nlog := 0
	finished := false
	scanStart := 0
	var delDone [2]int
	var delOK [2]bool
	var wg sync.WaitGroup
	wg.Add(3)
	vConcurrent(true)
	go func() {
		vThread("R")
		it := s.NewIterator(CompareInt, s.MakeBuf())
		scanStart = vClock()
		if seek {
			it.Seek(vIntItem(x))
		} else {
			it.SeekFirst()
		}
		for it.Valid() {
			if nlog >= 8 {
				vFail("iterator does not terminate")
			}
			log[nlog] = IntFromItem(it.Get())
			nlog++
			it.Next()
		}
		finished = true
		it.Close()
		vThreadDone("R")
		wg.Done()
	}()
	names := [2]string{"M0", "M1"}
	for j := 0; j < 2; j++ {
		go func(j int) {
			vThread(names[j])
			delOK[j] = s.DeleteNode(vn[j], CompareInt, s.MakeBuf(), &s.Stats)
			delDone[j] = vClock()
			vThreadDone(names[j])
			wg.Done()
		}(j)
	}
	wg.Wait()
	vConcurrent(false)
	vAssert(finished, "scan finished")
	vAssert(delOK[0] && delOK[1], "each node is deleted successfully by its only deleter")
	for i := 0; i < nlog; i++ {
		k := log[i]
		vAssert(k >= x, "returned item is >= the seek key")
		known := vOr(k == vol[0], k == vol[1])
		for j := 0; j < nst; j++ {
			known = vOr(known, k == stable[j])
		}
		vAssert(known, "returned item was present at some moment during the scan")
		for j := 0; j < 2; j++ {
			if delDone[j] < scanStart {
				vAssert(k != vol[j], "an item whose delete returned before the scan started is not returned")
				vReach("delete-completed-before-scan")
			}
		}
		if i > 0 {
			vAssert(k > log[i-1], "iterator never goes backwards, no item repeats")
		}
	}
	for j := 0; j < nst; j++ {
		seen := false
		for i := 0; i < nlog; i++ {
			seen = vOr(seen, log[i] == stable[j])
		}
		vAssert(vOr(stable[j] < x, seen), "every item present for the whole scan (and >= the start) is returned")
	}
	if nlog > 0 && seek {
		for j := 0; j < nst; j++ {
			vAssert(vNot(vAnd(stable[j] >= x, stable[j] < log[0])), "Seek lands with no stable item between the target and the first result")
		}
	}
	// after quiescence nothing deleted is visible any more
	m := vWalk(s, CompareInt, "after the scan and both deletes")
	vAssert(m.count == nst, "only the stable items remain")
	vReach("c15-two-done")
}
