package skiplist

import (
	"sync"
	"unsafe"
)

// H_C13N: linearizability of the skiplist for up to three goroutines with up to two operations each.
//
// Bounds tA, tB, tC give each thread's operation list as decimal digits (most significant first):
// 1 Insert(x), 2 Delete(x), 3 DeleteNode(initial node j), 4 Lookup(x); 0 = the thread does not exist.
// Keys x are symbolic, DeleteNode targets are forked over the initial nodes (or fixed per thread by nA/nB/nC >= 0). Every operation records a logical
// invocation and response time stamp (vClock). The results and the final content (level-0 walk) must be explained
// by SOME total order of all operations that respects program order and real-time order (an operation that
// returned before another was invoked comes first) - the definition of linearizability, decided by enumerating
// the admissible orders concretely and evaluating the sequential model symbolically on each.
// The model tracks node identity: DeleteNode(n) succeeds iff that very node is still present.
type vLinOp struct {
	kind, key, node, thread int
	res                     bool
	inv, resp               int
}

type vLin struct {
	ops  [6]vLinOp
	n    int
	base vModel
	meas *vMeasure
}

func (h *vLin) prec(j, i int) bool { // j must come before i
	a, b := &h.ops[j], &h.ops[i]
	if a.thread == b.thread {
		return j < i
	}
	return a.resp < b.inv
}

func (h *vLin) finalOK(m *vModel) bool {
	ok := h.meas.count == m.count()
	for j := 0; j < h.meas.count; j++ {
		ok = vAnd(ok, m.has(IntFromItem(h.meas.nodes[j].Item())))
	}
	return ok
}

func (h *vLin) search(used int, m vModel, ok bool) bool {
	if used == (1<<uint(h.n))-1 {
		return vAnd(ok, h.finalOK(&m))
	}
	r := false
	for i := 0; i < h.n; i++ {
		if used&(1<<uint(i)) != 0 {
			continue
		}
		eligible := true
		for j := 0; j < h.n; j++ {
			if j != i && used&(1<<uint(j)) == 0 && h.prec(j, i) {
				eligible = false
			}
		}
		if !eligible {
			continue
		}
		m2 := m
		op := &h.ops[i]
		var exp bool
		switch op.kind {
		case 1:
			exp = m2.add(op.key)
		case 2:
			exp = m2.del(op.key)
		case 3:
			exp = m2.present[op.node] // initial node j is entry j of the model
			m2.present[op.node] = false
		case 4:
			exp = m2.has(op.key)
		}
		r = vOr(r, h.search(used|1<<uint(i), m2, vAnd(ok, op.res == exp)))
	}
	return r
}

func H_C13N() {
	var s *Skiplist
	if vBound("mm") == 1 {
		cfg := DefaultConfig()
		cfg.UseMemoryMgmt = true
		cfg.Malloc = func(n int) unsafe.Pointer { return vAlloc(n) }
		cfg.Free = func(p unsafe.Pointer) { vFree(p) }
		cfg.BarrierDestructor = func(unsafe.Pointer) {}
		s = NewWithConfig(cfg)
	} else {
		s = New()
	}
	n0 := vBound("initial")
	setupBuf := s.MakeBuf()
	var h vLin
	var nodes [4]*Node
	rf := vRandFn("setup")
	prev := -1
	for i := 0; i < n0; i++ {
		k := int(vByte("init", i))
		vAssume(k > prev)
		prev = k
		n, ok := s.Insert2(vIntItem(k), CompareInt, nil, setupBuf, rf, &s.Stats)
		vAssert(ok, "setup insert")
		nodes[i] = n
		h.base.add(k)
	}
	names := [3]string{"A", "B", "C"}
	specs := [3]int{vBound("tA"), vBound("tB"), vBound("tC")}
	var first, count [3]int
	for t := 0; t < 3; t++ {
		first[t] = h.n
		var digits [4]int
		nd := 0
		for v := specs[t]; v > 0; v /= 10 {
			digits[nd] = v % 10
			nd++
		}
		for d := nd - 1; d >= 0; d-- {
			op := &h.ops[h.n]
			op.kind, op.thread = digits[d], t
			if op.kind == 3 {
				if n0 == 0 {
					vAssume(false)
				}
				if fixed := vBound("n" + names[t]); fixed >= 0 {
					op.node = fixed // target fixed by the run definition
				} else {
					op.node = vRange("node", h.n, 0, n0-1)
				}
				op.key = h.base.key[op.node]
			} else {
				op.key = int(vByte("x", h.n))
			}
			h.n++
		}
		count[t] = nd
	}
	run := func(t int) {
		buf := s.MakeBuf()
		for i := first[t]; i < first[t]+count[t]; i++ {
			op := &h.ops[i]
			if i > first[t] {
				vYield() // between two operations of a thread any other thread may run (not a preemption)
			}
			op.inv = vClock()
			switch op.kind {
			case 1:
				_, op.res = s.Insert2(vIntItem(op.key), CompareInt, nil, buf, vRandFn("lvl"+names[t]), &s.Stats)
			case 2:
				op.res = s.Delete(vIntItem(op.key), CompareInt, buf, &s.Stats)
			case 3:
				op.res = s.DeleteNode(nodes[op.node], CompareInt, buf, &s.Stats)
			case 4:
				_, _, op.res = s.Lookup(vIntItem(op.key), CompareInt, buf, &s.Stats)
			}
			op.resp = vClock()
		}
	}
	var wg sync.WaitGroup
	vConcurrent(true)
	for t := 0; t < 3; t++ {
		if count[t] == 0 {
			continue
		}
		wg.Add(1)
		go func(t int) { vThread(names[t]); run(t); vThreadDone(names[t]); wg.Done() }(t)
	}
	wg.Wait()
	vConcurrent(false)

	meas := vWalk(s, CompareInt, "after-concurrent")
	h.meas = &meas
	vAssert(h.search(0, h.base, true), "results and final content are explained by a linearization (program order and real-time order respected)")
	vCheckStats(s, &meas)
	it := s.NewIterator(CompareInt, setupBuf)
	cnt := 0
	last := -1
	for it.SeekFirst(); it.Valid(); it.Next() {
		k := IntFromItem(it.Get())
		vAssert(k > last, "iterator ascending after quiescence")
		last = k
		cnt++
	}
	it.Close()
	vAssert(cnt == meas.count, "iterator yields the resulting set")
	vReach("c13n-done")
}
