package skiplist

import "unsafe"

// ---------------------------------------------------------------------------------------------
// Shared helpers for skiplist-level harnesses

type vModel struct {
	key     [16]int
	present [16]bool
	n       int
}

func (m *vModel) has(k int) bool {
	r := false
	for i := 0; i < m.n; i++ {
		r = vOr(r, vAnd(m.present[i], m.key[i] == k))
	}
	return r
}

func (m *vModel) add(k int) bool { // returns expected success
	ex := m.has(k)
	m.key[m.n] = k
	m.present[m.n] = vNot(ex)
	m.n++
	return vNot(ex)
}

func (m *vModel) del(k int) bool {
	ex := m.has(k)
	for i := 0; i < m.n; i++ {
		m.present[i] = vAnd(m.present[i], vNot(m.key[i] == k))
	}
	return ex
}

func (m *vModel) count() int {
	c := 0
	for i := 0; i < m.n; i++ {
		c += vB2I(m.present[i])
	}
	return c
}

func vIntItem(k int) unsafe.Pointer { return NewIntKeyItem(k) }

func vRandFn(name string) func() float32 {
	return func() float32 {
		if vCoin(name) {
			return 0
		}
		return 1
	}
}

// vWalk checks the structural invariants of C14 on a quiescent skiplist and returns what it measured.
type vMeasure struct {
	count int
	dist  [MaxLevel + 1]int64
	mem   int64
	nodes [16]*Node
}

func vWalk(s *Skiplist, cmp CompareFn, tag string) (m vMeasure) {
	var prevChain [16]*Node
	prevN := 0
	for l := 0; l <= MaxLevel; l++ {
		var chain [16]*Node
		n := 0
		cur, del := s.head.getNext(l)
		vAssert(!del, "head never marked")
		steps := 0
		for cur != s.tail {
			vAssert(cur != nil, "chain ends at tail, not nil")
			steps++
			if steps > 14 {
				vFail("cycle or over-long chain")
			}
			nx, d := cur.getNext(l)
			if d {
				// a node marked deleted. At level 0 it would be visible to a fresh iterator, so none may remain once
				// every operation has returned. On an index level a marked node may legitimately linger (an inserter
				// can link it there after the deleter's unlinking pass; searches remove it lazily): the property speaks
				// about the nodes NOT marked deleted, so it is skipped here.
				vAssert(l > 0, "no marked node remains linked at level 0 at quiescence")
				// ... but only on a level that searches visit (they start at the list level): above it nothing would
				// ever unlink the node, and with user-managed memory it is freed while still linked there
				vAssert(l <= int(s.level), "no marked node stays linked on a level above the list level (no search would ever unlink it)")
				vReach("marked-node-lingers-on-index-level")
				cur = nx
				continue
			}
			vAssert(cur.Level() >= l, "node linked above its height")
			if l == 0 {
				vAssert(cur.Level() <= int(s.level), "the list level covers the height of every linked node (searches start there)")
			}
			if n > 0 {
				vAssert(compare(cmp, chain[n-1].Item(), cur.Item()) < 0, "level chain strictly ascending")
			}
			chain[n] = cur
			n++
			cur = nx
		}
		if l == 0 {
			m.count = n
			for i := 0; i < n; i++ {
				m.nodes[i] = chain[i]
				m.dist[chain[i].Level()]++
				m.mem += int64(s.Size(chain[i]))
			}
		} else {
			// sub-sequence of the level below (both concrete pointer chains)
			j := 0
			for i := 0; i < n; i++ {
				for j < prevN && prevChain[j] != chain[i] {
					j++
				}
				if j >= prevN {
					vFail("level chain is not a sub-sequence of the level below")
				}
				j++
			}
			// every node of height >= l that is on the level below must be on this level
			for i := 0; i < prevN; i++ {
				if prevChain[i].Level() >= l {
					found := false
					for k := 0; k < n; k++ {
						if chain[k] == prevChain[i] {
							found = true
						}
					}
					if !found {
						vFail("live node missing from a level within its height")
					}
				}
			}
		}
		prevChain = chain
		prevN = n
	}
	return
}

func vCheckStats(s *Skiplist, m *vMeasure) {
	st := s.GetStats()
	vAssert(st.NodeCount == m.count, "stats: node count equals walk")
	for l := 0; l <= MaxLevel; l++ {
		vAssert(st.NodeDistribution[l] == m.dist[l], "stats: level distribution equals walk")
	}
	vAssert(st.SoftDeletes == 0, "stats: no soft deletes at quiescence")
	vAssert(st.Memory == m.mem, "stats: memory equals walk")
	vAssert(s.MemoryInUse() == m.mem, "MemoryInUse equals walk")
}

// ---------------------------------------------------------------------------------------------
// H_C14_seq: sequential insert/delete histories; after every operation the structure and
// statistics invariants hold and results match the ordered-set model (also the sequential part of C13).
func H_C14_seq() {
	nops := vBound("ops")
	var s *Skiplist
	mm := vBound("mm") == 1
	if mm {
		cfg := DefaultConfig()
		cfg.UseMemoryMgmt = true
		cfg.Malloc = func(n int) unsafe.Pointer { return vAlloc(n) }
		cfg.Free = func(p unsafe.Pointer) { vFree(p) }
		cfg.BarrierDestructor = func(unsafe.Pointer) {}
		s = NewWithConfig(cfg)
	} else {
		s = New()
	}
	buf := s.MakeBuf()
	var model vModel
	var handles [16]*Node
	var hkey [16]int
	nh := 0
	inserts := int64(0)
	rf := vRandFn("lvl")
	for i := 0; i < nops; i++ {
		switch vChoice("op", i, 4) {
		case 0:
			k := int(vByte("key", i))
			n, ok := s.Insert2(vIntItem(k), CompareInt, nil, buf, rf, &s.Stats)
			vAssert(ok == model.add(k), "Insert succeeds iff key absent")
			if ok {
				handles[nh], hkey[nh] = n, k
				nh++
				inserts++
				if n.Level() > 0 {
					vReach("inserted-tall-node")
				}
			}
		case 1:
			k := int(vByte("key", i))
			ok := s.Delete(vIntItem(k), CompareInt, buf, &s.Stats)
			vAssert(ok == model.del(k), "Delete succeeds iff key present")
			if ok {
				vReach("delete-present")
			}
		case 2:
			if nh == 0 {
				vAssume(false)
			}
			h := vRange("handle", i, 0, nh-1)
			// DeleteNode on a node handle: succeeds iff that node is still live (exactly one successful deleter)
			live := model.has(hkey[h])
			// the handle's own node may have been deleted and the key re-inserted under another node:
			// track liveness per handle through the level-0 mark
			_, marked := handles[h].getNext(0)
			ok := s.DeleteNode(handles[h], CompareInt, buf, &s.Stats)
			vAssert(ok == !marked, "DeleteNode succeeds iff the node was not yet deleted")
			if ok {
				vAssert(live, "a live node's key is in the model")
				model.del(hkey[h])
				vReach("deletenode-live")
			}
		case 3:
			k := int(vByte("key", i))
			_, _, found := s.Lookup(vIntItem(k), CompareInt, buf, &s.Stats)
			vAssert(found == model.has(k), "Lookup finds iff present")
		}
		m := vWalk(s, CompareInt, "after-op")
		vAssert(m.count == model.count(), "walk count equals model")
		for j := 0; j < m.count; j++ {
			vAssert(model.has(IntFromItem(m.nodes[j].Item())), "every linked item is in the model")
		}
		vCheckStats(s, &m)
		vAssert(s.GetStats().NodeAllocs == inserts, "NodeAllocs counts successful inserts")
	}
	// iterator yields the set in order
	it := s.NewIterator(CompareInt, buf)
	cnt := 0
	last := -1
	for it.SeekFirst(); it.Valid(); it.Next() {
		k := IntFromItem(it.Get())
		vAssert(k > last, "iterator ascending")
		vAssert(model.has(k), "iterator yields only present keys")
		last = k
		cnt++
	}
	it.Close()
	vAssert(cnt == model.count(), "iterator yields every present key")
	vReach("c14-seq-done")
}
