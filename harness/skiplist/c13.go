package skiplist

import (
	"sync"
	"unsafe"
)

// H_C13: the skiplist used directly by two goroutines, one operation each, on a small list with symbolic keys.
// The pair of results and the final content must equal the outcome of the two operations executed in one of the
// two sequential orders (linearizability for two overlapping operations); a node is deleted successfully by
// exactly one caller; afterwards the C14 structure/statistics invariants hold.
//
// opA / opB: 0 Insert(x), 1 Delete(x), 2 DeleteNode(initial node j), 3 Lookup(x)
func H_C13() {
	var s *Skiplist
	if vBound("mm") == 1 {
		cfg := DefaultConfig()
		cfg.UseMemoryMgmt = true
		cfg.Malloc = func(n int) unsafe.Pointer { return vAlloc(n) }
		cfg.Free = func(p unsafe.Pointer) { vFree(p) }
		cfg.BarrierDestructor = func(unsafe.Pointer) {}
		s = NewWithConfig(cfg)
	} else {
		s = New()
	}
	n0 := vBound("initial")
	setupBuf := s.MakeBuf()
	var base vModel
	var nodes [4]*Node
	rf := vRandFn("setup")
	prev := -1
	for i := 0; i < n0; i++ {
		k := int(vByte("init", i))
		vAssume(k > prev) // initial keys strictly ascending (symmetry)
		prev = k
		n, ok := s.Insert2(vIntItem(k), CompareInt, nil, setupBuf, rf, &s.Stats)
		vAssert(ok, "setup insert")
		nodes[i] = n
		base.add(k)
	}
	ops := [2]int{vBound("opA"), vBound("opB")}
	var keys [2]int
	var target [2]int
	for t := 0; t < 2; t++ {
		keys[t] = int(vByte("x", t))
		if ops[t] == 2 {
			if n0 == 0 {
				vAssume(false)
			}
			target[t] = vRange("node", t, 0, n0-1)
			keys[t] = base.key[target[t]]
		}
	}
	var res [2]bool
	var newNode [2]*Node
	run := func(t int) {
		buf := s.MakeBuf()
		switch ops[t] {
		case 0:
			names := [2]string{"lvlA", "lvlB"}
			n, ok := s.Insert2(vIntItem(keys[t]), CompareInt, nil, buf, vRandFn(names[t]), &s.Stats)
			res[t] = ok
			newNode[t] = n
		case 1:
			res[t] = s.Delete(vIntItem(keys[t]), CompareInt, buf, &s.Stats)
		case 2:
			res[t] = s.DeleteNode(nodes[target[t]], CompareInt, buf, &s.Stats)
		case 3:
			_, _, found := s.Lookup(vIntItem(keys[t]), CompareInt, buf, &s.Stats)
			res[t] = found
		}
	}
	var wg sync.WaitGroup
	wg.Add(2)
	vConcurrent(true)
	go func() { vThread("A"); run(0); vThreadDone("A"); wg.Done() }()
	go func() { vThread("B"); run(1); vThreadDone("B"); wg.Done() }()
	wg.Wait()
	vConcurrent(false)

	// sequential specification in both orders
	spec := func(first, second int) (m vModel, r [2]bool) {
		m = base
		for _, t := range [2]int{first, second} {
			switch ops[t] {
			case 0:
				r[t] = m.add(keys[t])
			case 1, 2:
				r[t] = m.del(keys[t])
			case 3:
				r[t] = m.has(keys[t])
			}
		}
		return
	}
	m01, r01 := spec(0, 1)
	m10, r10 := spec(1, 0)
	// observe the final content
	meas := vWalk(s, CompareInt, "after-concurrent")
	ok01 := vAnd(res[0] == r01[0], res[1] == r01[1])
	ok10 := vAnd(res[0] == r10[0], res[1] == r10[1])
	ok01 = vAnd(ok01, meas.count == m01.count())
	ok10 = vAnd(ok10, meas.count == m10.count())
	for j := 0; j < meas.count; j++ {
		k := IntFromItem(meas.nodes[j].Item())
		ok01 = vAnd(ok01, m01.has(k))
		ok10 = vAnd(ok10, m10.has(k))
	}
	vAssert(vOr(ok01, ok10), "results and final content equal one of the two sequential orders")
	if ops[0] == 2 && ops[1] == 2 && target[0] == target[1] {
		vAssert(!(res[0] && res[1]), "a node is deleted successfully by exactly one caller")
		vReach("same-node-deleted-by-both")
	}
	vCheckStats(s, &meas)
	// iterator after quiescence yields exactly the resulting set in order
	it := s.NewIterator(CompareInt, setupBuf)
	cnt := 0
	last := -1
	for it.SeekFirst(); it.Valid(); it.Next() {
		k := IntFromItem(it.Get())
		vAssert(k > last, "iterator ascending after quiescence")
		last = k
		cnt++
	}
	it.Close()
	vAssert(cnt == meas.count, "iterator yields the resulting set")
	vReach("c13-done")
}
