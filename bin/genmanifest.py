#!/usr/bin/env python3
# Regenerates MANIFEST.json from checks/*.json and the tables below.
import json, os, glob
D = os.path.dirname(os.path.dirname(os.path.abspath(__file__)))
props = [json.loads(l) for l in open(os.path.join(D, 'properties.jsonl'))]
meta = json.load(open(os.path.join(D, 'checks', '_meta.json')))
claimed = sorted(os.path.basename(p)[:-5] for p in glob.glob(os.path.join(D, 'checks', 'C*.json')))
checks = []
for pid in claimed:
    m = meta['checks'][pid]
    checks.append({
        "property_id": pid,
        "quick_cmd": f"bin/check {pid} quick",
        "thorough_cmd": f"bin/check {pid} thorough",
        "evidence_file": f"evidence/{pid}.json",
        "replay_cmd_template": f"bin/check {pid} --replay {{path}}",
        "engine": "symx",
        "level_claimed": {"category": "model_checking", "text": m['text'], "design_ref": m.get('design_ref', 'DESIGN.md §4')},
        "level_note": m['note'],
        "technique": m.get('technique', "bounded symbolic execution of the real go/ssa with z3 (SMT-decided path conditions and assertions)"),
    })
na = [{"property_id": p['id'], "reason": meta['not_applicable'].get(p['id'], "no check built yet in this session (work in progress)")} for p in props if p['id'] not in claimed]
man = {
    "version": 1,
    "setup_cmd": "bin/setup",
    "hooks": {
        "guard": "verif",
        "enable": "no tagged code in /repo: harnesses are injected with go/packages Overlay (engine) and go test -overlay (native replay)",
        "baseline_off_cmd": "cd /repo && go test -vet=off -count=1 -timeout 25m ./...",
        "source_commits": [],
        "add_only": True
    },
    "engines": [{"name": "symx", "path": "engine", "serves_properties": claimed,
                 "kind_free_text": "path-forking symbolic executor over go/ssa of /repo (byte-precise memory, goroutines/channels, preemption-bounded schedules) with z3 as the deciding solver; native replay through go test -overlay"}],
    "checks": checks,
    "not_applicable": na,
    "notes": meta.get('notes', '')
}
json.dump(man, open(os.path.join(D, 'MANIFEST.json'), 'w'), indent=1)
print("claimed:", claimed)
